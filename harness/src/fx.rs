//! Helpers that walk a Flow / Call through the typestates with big buffers.
use crate::util::guarded;
use ureq_proto::client::call::state::RecvResponse as CRecvResponse;
use ureq_proto::client::call::Call;
use ureq_proto::client::flow::state::{Prepare, RecvResponse, SendBody};
use ureq_proto::client::flow::{Await100Result, Flow, SendRequestResult};
use ureq_proto::http::{Method, Request, Version};

pub const METHODS: [&str; 9] = ["GET", "HEAD", "POST", "PUT", "DELETE", "CONNECT", "OPTIONS", "TRACE", "PATCH"];

pub fn needs_body(m: &str) -> bool {
    matches!(m, "POST" | "PUT" | "PATCH")
}

pub fn simple_request(method: &str, uri: &str) -> Request<()> {
    Request::builder().method(Method::from_bytes(method.as_bytes()).unwrap()).uri(uri).version(Version::HTTP_11).body(()).unwrap()
}

/// Finish sending the (empty) body of a flow in SendBody.
pub fn finish_body(mut f: Flow<(), SendBody>) -> Option<Flow<(), RecvResponse>> {
    let mut buf = vec![0u8; 256];
    guarded(|| f.write(&[], &mut buf))?.ok()?;
    guarded(|| f.proceed())?
}

/// Prepare -> (head written) -> (body finished) -> RecvResponse, all in single big calls.
pub fn to_recv_response(f: Flow<(), Prepare>) -> Option<Flow<(), RecvResponse>> {
    let mut buf = vec![0u8; 1 << 17];
    let mut f = f.proceed();
    // an implementation may hand out the head in several calls even into a big buffer
    for _ in 0..400 {
        if guarded(|| f.can_proceed())? {
            break;
        }
        guarded(|| f.write(&mut buf))?.ok()?;
    }
    match guarded(|| f.proceed())?.ok()?? {
        SendRequestResult::RecvResponse(f) => Some(f),
        SendRequestResult::SendBody(f) => finish_body(f),
        SendRequestResult::Await100(f) => match guarded(|| f.proceed())?.ok()? {
            Await100Result::SendBody(f) => finish_body(f),
            Await100Result::RecvResponse(f) => Some(f),
        },
    }
}

/// A flow in RecvResponse whose Expect: 100-continue handshake timed out (the caller gave up waiting and sent
/// the body): the flow still expects a late 100.
pub fn flow_recv_response_after_timeout(method: &str) -> Flow<(), RecvResponse> {
    let req = Request::builder().method(Method::from_bytes(method.as_bytes()).unwrap()).uri("http://h.test/p").header("expect", "100-continue").body(()).unwrap();
    let f = Flow::new(req).expect("harness: flow");
    to_recv_response(f).expect("harness: reach RecvResponse")
}

/// A flow in RecvResponse because the server answered while the request was still awaiting 100-continue: `answer`
/// (the start of a non-100 response) was seen by try_read_100, the body was never sent.
pub fn flow_recv_response_after_refusal(method: &str, answer: &[u8]) -> Option<Flow<(), RecvResponse>> {
    let req = Request::builder().method(Method::from_bytes(method.as_bytes()).unwrap()).uri("http://h.test/p").header("expect", "100-continue").body(()).unwrap();
    let mut f = Flow::new(req).expect("harness: flow").proceed();
    let mut buf = vec![0u8; 1 << 12];
    for _ in 0..400 {
        if f.can_proceed() {
            break;
        }
        f.write(&mut buf).ok()?;
    }
    match f.proceed().ok()?? {
        SendRequestResult::Await100(mut a) => {
            guarded(|| a.try_read_100(answer))?.ok()?;
            match guarded(|| a.proceed())?.ok()? {
                Await100Result::RecvResponse(f) => Some(f),
                // (the answer did not decide anything yet: the caller gives up waiting, sends the body and receives)
                Await100Result::SendBody(f) => finish_body(f),
            }
        }
        _ => None,
    }
}

/// Like flow_recv_response, with request-side conditions that already demand closing the connection:
/// variant 1 = "connection: close" on the request, 2 = an HTTP/1.0 request (GET/HEAD/POST only), 3 = both.
pub fn flow_recv_response_v(method: &str, variant: usize) -> Flow<(), RecvResponse> {
    let mut b = Request::builder().method(Method::from_bytes(method.as_bytes()).unwrap()).uri("http://h.test/p");
    if variant & 1 == 1 {
        b = b.header("connection", "close");
    }
    if variant & 2 == 2 && matches!(method, "GET" | "HEAD" | "POST") {
        b = b.version(Version::HTTP_10);
    }
    let f = Flow::new(b.body(()).unwrap()).expect("harness: flow");
    to_recv_response(f).expect("harness: reach RecvResponse")
}

pub fn flow_recv_response(method: &str) -> Flow<(), RecvResponse> {
    let f = Flow::new(simple_request(method, "http://h.test/p")).expect("harness: flow");
    to_recv_response(f).expect("harness: reach RecvResponse")
}

pub fn call_recv_response(method: &str) -> Call<CRecvResponse, ()> {
    let mut buf = vec![0u8; 4096];
    let req = simple_request(method, "http://h.test/p");
    if needs_body(method) {
        let mut c = Call::with_body(req).unwrap();
        let mut acc: Vec<u8> = vec![];
        for _ in 0..400 {
            let (_, n) = c.write(&[], &mut buf).unwrap();
            acc.extend(&buf[..n]);
            if c.is_finished() {
                break;
            }
        }
        c.into_receive().expect("harness: call into_receive")
    } else {
        let mut c = Call::without_body(req).unwrap();
        for _ in 0..400 {
            if c.is_finished() {
                break;
            }
            c.write(&mut buf).unwrap();
        }
        c.into_receive().expect("harness: call into_receive")
    }
}
