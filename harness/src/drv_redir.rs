//! Drivers for redirect following: C13 (credentials / stale framing), C14 (RFC 3986 target), C15 (method table).
use crate::drv_req::lex_head;
use crate::util::*;
use serde_json::{json, Value};
use ureq_proto::client::flow::state::{Prepare, RecvResponse};
use ureq_proto::client::flow::{Flow, RecvBodyResult, RecvResponseResult, RedirectAuthHeaders, SendRequestResult};
use ureq_proto::http::{Method, Request, Uri};

fn uri_text(u: &Value) -> String {
    let mut s = format!("{}://{}", u["scheme"].as_str().unwrap(), u["host"].as_str().unwrap());
    let port = u["port"].as_u64().unwrap();
    if port != 0 {
        s.push_str(&format!(":{}", port));
    }
    for seg in u["segs"].as_array().unwrap() {
        s.push('/');
        s.push_str(seg.as_str().unwrap());
    }
    let q = u["q"].as_str().unwrap();
    if q != "-" {
        s.push('?');
        s.push_str(q);
    }
    s
}

/// Location text of a structured reference (None: unsupported kind)
fn ref_text(r: &Value) -> String {
    let segs: String = r["segs"].as_array().unwrap().iter().map(|s| s.as_str().unwrap().to_string()).collect::<Vec<_>>().join("/");
    let q = r["q"].as_str().unwrap();
    let qs = if q != "-" { format!("?{}", q) } else { String::new() };
    let port = r["port"].as_u64().unwrap();
    let ps = if port != 0 { format!(":{}", port) } else { String::new() };
    let nonempty = !r["segs"].as_array().unwrap().is_empty();
    match r["kind"].as_str().unwrap() {
        "abs" => format!("{}://{}{}{}{}{}", r["scheme"].as_str().unwrap(), r["host"].as_str().unwrap(), ps, if nonempty { "/" } else { "" }, segs, qs),
        "net" => format!("//{}{}{}{}{}", r["host"].as_str().unwrap(), ps, if nonempty { "/" } else { "" }, segs, qs),
        "abspath" => format!("/{}{}", segs, qs),
        "relpath" => format!("{}{}", segs, qs),
        "query" => qs,
        _ => String::new(),
    }
}

pub fn project_uri(u: &Uri) -> Value {
    let path = u.path();
    let segs: Vec<&str> = if path.is_empty() { vec![] } else { path[1..].split('/').collect() };
    json!({"scheme": u.scheme_str().unwrap_or(""), "host": u.host().unwrap_or(""), "port": u.port_u16().unwrap_or(0),
           "segs": segs, "q": u.query().unwrap_or("-")})
}

pub struct Hop {
    pub status: u16,
    pub r: Value,            // structured reference (kind "bad" for the malformed ones)
    pub bad: Option<&'static str>,
    pub frag: bool,
    pub decoys: usize,
    pub with_body: bool,
}

fn send_and_lex(f: Flow<(), Prepare>) -> Option<(crate::drv_req::LexedHead, Flow<(), RecvResponse>)> {
    send_and_lex_peek(f, None)
}

/// `peek`: bytes of the server's answer that are already there while the flow awaits 100-continue
fn send_and_lex_peek(f: Flow<(), Prepare>, peek: Option<&[u8]>) -> Option<(crate::drv_req::LexedHead, Flow<(), RecvResponse>)> {
    let mut buf = vec![0u8; 1 << 17];
    let mut f = f.proceed();
    let mut acc: Vec<u8> = vec![];
    for _ in 0..400 {
        if guarded(|| f.can_proceed())? {
            break;
        }
        let n = guarded(|| f.write(&mut buf))?.ok()?;
        acc.extend(&buf[..n]);
    }
    let lh = lex_head(&acc);
    let rr = match guarded(|| f.proceed())?.ok()?? {
        SendRequestResult::RecvResponse(f) => f,
        SendRequestResult::SendBody(f) => crate::fx::finish_body(f)?,
        SendRequestResult::Await100(mut a) => match {
            if let Some(p) = peek {
                // the server does not send 100 but answers straight away: the body is withheld
                guarded(|| a.try_read_100(p))?.ok()?;
            }
            guarded(|| a.proceed())?.ok()?
        } {
            ureq_proto::client::flow::Await100Result::SendBody(f) => crate::fx::finish_body(f)?,
            ureq_proto::client::flow::Await100Result::RecvResponse(f) => f,
        },
    };
    Some((lh, rr))
}

fn hop_head(h: &Hop) -> Vec<u8> {
    let mut head = format!("HTTP/1.1 {} Moved\r\n", h.status).into_bytes();
    for d in 0..h.decoys {
        head.extend(format!("Location: http://decoy{}.test/wrong\r\n", d).as_bytes());
    }
    match h.bad {
        Some("missing") => {}
        // no Location, but fields that look like one: they are not the Location
        Some("missing+lookalikes") => head.extend(b"Content-Location: http://cdn.test/x\r\nX-Location: http://x.test/\r\nRefresh: 0; url=http://r.test/\r\nLink: <http://l.test/>; rel=canonical\r\n"),
        Some("nontext") => head.extend(b"Location: http://a.test/\xff\xfe\r\n"),
        Some("ipv6") => head.extend(b"Location: http://[::1/x\r\n"),
        Some("spacehost") => head.extend(b"Location: http://a b/x\r\n"),
        // non-textual although valid UTF-8
        Some("utf8path") => head.extend(b"Location: /caf\xc3\xa9\r\n"),
        Some("utf8host") => head.extend(b"Location: http://b\xc3\xbccher.test/x\r\n"),
        Some("kelvin") => head.extend(b"Location: //\xe2\x84\xaa.test/\r\n"),
        Some("latin1") => head.extend(b"Location: /caf\xe9?x=1\r\n"),
        // long and non-textual, the first obs-text byte at every alignment (an error message quoting it must cope)
        Some(k) if k.starts_with("longhi") => {
            head.extend(b"Location: /");
            head.extend(std::iter::repeat(b'a').take(k.len() - 6));
            head.extend(std::iter::repeat(0xE5u8).take(130));
            head.extend(b"\r\n");
        }
        Some(k) if k.starts_with("asciihi") => {
            head.extend(b"Location: /");
            head.extend(std::iter::repeat(b'p').take(250 + (k.len() - 7)));
            head.extend(b"\xff\xfe\r\n");
        }
        Some(_) => head.extend(b"Location: http://[zz]/\r\n"),
        None => {
            head.extend(b"Location: ");
            head.extend(ref_text(&h.r).as_bytes());
            if h.frag {
                head.extend(b"#frag-1");
            }
            head.extend(b"\r\n");
        }
    }
    if h.with_body {
        head.extend(b"Content-Length: 5\r\nSet-Cookie: a=b\r\n\r\n");
    } else {
        head.extend(b"Content-Length: 0\r\n\r\n");
    }
    head
}

/// What the caller does around the hops of a chain.
#[derive(Default, Clone, Copy)]
pub struct ChainOpt {
    /// the first request is sent with send_body_despite_method() (a body on a bodiless method)
    pub despite: bool,
    /// every redirected request is sent with send_body_despite_method() as well
    pub despite_hops: bool,
    /// the caller sets its own cookie / authorization on every redirected request
    pub readd: bool,
    /// the server sends an unsolicited "100 Continue" before every 3xx head
    pub interim: bool,
    /// the first response is already there while the first request awaits 100-continue (Expect rejected by the answer)
    pub answer_in_await: bool,
    /// the original request carries its own Host header (virtual host), naming another host than its URI
    pub explicit_host: bool,
    /// the original request is HTTP/1.0 (GET / HEAD / POST only)
    pub ver10: bool,
    /// this many other header lines precede the credentials on the original request
    pub fillers: usize,
    /// the original URI carries credentials (user:secret@host) and the request has no Authorization / Cookie header of its own
    pub userinfo: bool,
    /// a body-method original carries Transfer-Encoding: chunked next to its Content-Length
    pub both_framing: bool,
}

const ORIG_AUTH: [&[u8]; 2] = [b"Basic b3JpZzpwdw==", b"Bearer second-line"];
const ORIG_COOKIE: [&[u8]; 3] = [b"session=orig", b"second=line", b"third=line"];
const NEW_AUTH: &[u8] = b"Bearer set-on-the-new-flow";
const NEW_COOKIE: &[u8] = b"jar=set-on-the-new-flow";

/// Run one redirect chain on the real code, logging one `hop` event per as_new_flow call.
pub fn run_chain(t: &mut Tracer, orig: &Value, method: &str, same_host: bool, hops: &[Hop], note: &str) {
    run_chain_opt(t, orig, method, same_host, hops, note, ChainOpt::default())
}

pub fn run_chain_opt(t: &mut Tracer, orig: &Value, method: &str, same_host: bool, hops: &[Hop], note: &str, opt: ChainOpt) {
    let despite = opt.despite;
    let body_m = matches!(method, "POST" | "PUT" | "PATCH");
    let mut utext = uri_text(orig);
    if opt.userinfo {
        utext = utext.replacen("://", "://user:s3cret@", 1);
        t.class("hop:credentials-in-the-uri");
    }
    let mut b = Request::builder().method(Method::from_bytes(method.as_bytes()).unwrap()).uri(utext);
    for k in 0..opt.fillers {
        b = b.header(format!("x-fill-{}", k), "v");
    }
    if opt.fillers > 0 {
        t.class("hop:many-original-headers");
    }
    if opt.userinfo {
        b = b.header("x-keep", "1");
    } else {
        b = b.header("authorization", "Basic b3JpZzpwdw==").header("cookie", "session=orig").header("x-keep", "1");
    }
    if !opt.userinfo && (orig["q"] != "-" || hops.len() % 2 == 0) {
        // the same credentials header on more than one line
        b = b.header("cookie", "second=line").header("x-between", "1").header("authorization", "Bearer second-line").header("cookie", "third=line");
    }
    if body_m {
        b = b.header("content-length", "0");
        if opt.both_framing {
            b = b.header("transfer-encoding", "chunked");
            t.class("hop:original-with-both-framing-headers");
        }
        if hops.len() % 2 == 1 {
            // what an ordinary form post carries
            b = b.header("content-type", "application/x-www-form-urlencoded").header("content-language", "en").header("content-encoding", "identity").header("content-location", "/form");
        }
    }
    if opt.explicit_host {
        b = b.header("host", "api.test:8443");
    }
    if opt.ver10 && matches!(method, "GET" | "HEAD" | "POST") {
        b = b.version(ureq_proto::http::Version::HTTP_10);
    }
    if hops.len() % 3 == 1 || orig["port"] != 0 {
        // the first request negotiates with Expect: 100-continue (and, for bodiless methods, carries it for nothing)
        b = b.header("expect", "100-continue");
    }
    let req = b.body(()).unwrap();
    let mut flow = match guarded(|| Flow::new(req)) {
        Some(Ok(f)) => f,
        _ => return,
    };
    if despite && !body_m {
        flow.send_body_despite_method();
        t.class("hop:despite-method");
    }
    let pol_s = if same_host { "SameHost" } else { "Never" };
    t.case(json!({"ev":"case","comp":"redirect","orig":orig,"method":method,"policy":pol_s,"note":note,"hops":hops.len()}));
    let mut cur = project_uri(flow.uri());
    let mut cur_method = method.to_string();
    let first_head = hops.first().map(hop_head);
    let peek = if opt.answer_in_await && !opt.interim { first_head.as_deref() } else { None };
    if peek.is_some() {
        t.class("hop:answered-while-awaiting-100");
    }
    let mut rr = match send_and_lex_peek(flow, peek) {
        Some((_, rr)) => rr,
        None => {
            t.ev(json!({"ev":"panic","during":"sending the first request"}));
            return;
        }
    };
    for (hi, h) in hops.iter().enumerate() {
        let head = hop_head(h);
        if opt.interim {
            // an unsolicited interim response: handed to the caller (or skipped), the exchange goes on
            t.class("hop:after-interim-100");
            // (a 100 still owed to an Expect handshake is skipped silently: send another one then)
            let mut surfaced = false;
            for _ in 0..2 {
                match guarded(|| rr.try_response(b"HTTP/1.1 100 Continue\r\n\r\n")) {
                    Some(Ok((25, Some(_)))) => {
                        surfaced = true;
                        break;
                    }
                    Some(Ok((25, None))) => {}
                    _ => {
                        t.ev(json!({"ev":"panic","during":"try_response of an interim 100 before a redirect"}));
                        return;
                    }
                }
            }
            if surfaced {
                t.class("hop:interim-100-surfaced");
            }
        }
        match guarded(|| rr.try_response(&head)) {
            Some(Ok((_, Some(_)))) => {}
            _ => {
                t.ev(json!({"ev":"panic","during":"try_response of a redirect"}));
                return;
            }
        }
        let mut red = match guarded(|| rr.proceed()) {
            Some(Some(RecvResponseResult::Redirect(r))) => r,
            Some(Some(RecvResponseResult::RecvBody(mut rb))) => {
                let mut out = [0u8; 16];
                let _ = guarded(|| rb.read(b"hello", &mut out));
                match guarded(|| rb.proceed()) {
                    Some(Some(RecvBodyResult::Redirect(r))) => r,
                    Some(Some(RecvBodyResult::Cleanup(_))) => {
                        t.ev(json!({"ev":"landed","status":h.status,"withbody":true,"state":"Cleanup","reported":0}));
                        return;
                    }
                    _ => {
                        t.ev(json!({"ev":"panic","during":"proceed after a redirect body"}));
                        return;
                    }
                }
            }
            Some(Some(RecvResponseResult::Cleanup(_))) => {
                t.ev(json!({"ev":"landed","status":h.status,"withbody":h.with_body,"state":"Cleanup","reported":0}));
                return;
            }
            _ => {
                t.ev(json!({"ev":"panic","during":"proceed after a redirect head"}));
                return;
            }
        };
        t.ev(json!({"ev":"landed","status":h.status,"withbody":h.with_body,"state":"Redirect","reported": red.status().as_u16()}));
        let pol = if same_host { RedirectAuthHeaders::SameHost } else { RedirectAuthHeaders::Never };
        let mut e = json!({"ev":"hop","hop":hi + 1,"status":h.status,"method":cur_method,"policy":pol_s,
                           "orig":orig,"cur":cur,"ref":h.r,"res":"err","uri":cur,"newmethod":"","target":"","hostline":"",
                           "auth":false,"cookie":false,"clen":false});
        if let Some(bk) = h.bad {
            e["badkind"] = json!(bk);
            t.class("hop:bad-location");
        }
        if hi >= 1 {
            t.class("hop:second-or-later");
        }
        if h.decoys > 0 {
            t.class("hop:several-locations");
        }
        match guarded(|| red.as_new_flow(pol)) {
            None => {
                t.ev(json!({"ev":"panic","during":"as_new_flow"}));
                return;
            }
            Some(Err(er)) => {
                e["err"] = json!(format!("{:?}", er));
                t.ev(e);
                return;
            }
            Some(Ok(None)) => {
                e["res"] = json!("none");
                t.class("hop:not-followed");
                t.ev(e);
                return;
            }
            Some(Ok(Some(mut nf))) => {
                e["res"] = json!("flow");
                let mut set_auth = false;
                let mut mine_cookie: Vec<u8> = vec![];
                let mut mine_auth: Vec<u8> = vec![];
                if opt.despite_hops && !matches!(nf.method().as_str(), "POST" | "PUT" | "PATCH") {
                    nf.send_body_despite_method();
                    t.class("hop:despite-on-redirected");
                }
                if opt.readd {
                    // the caller's own credentials for the new request: these are not "inherited"
                    // (a value of its own at every hop: what the caller set on one redirected request is not inherited by the next)
                    mine_cookie = format!("{}-hop{}", String::from_utf8_lossy(NEW_COOKIE), hi + 1).into_bytes();
                    mine_auth = format!("{}-hop{}", String::from_utf8_lossy(NEW_AUTH), hi + 1).into_bytes();
                    let ok = nf.header("cookie", ureq_proto::http::HeaderValue::from_bytes(&mine_cookie).unwrap()).is_ok()
                        && (hi % 2 == 1 || nf.header("authorization", ureq_proto::http::HeaderValue::from_bytes(&mine_auth).unwrap()).is_ok());
                    set_auth = hi % 2 == 0;
                    if !ok {
                        t.ev(json!({"ev":"panic","during":"setting a header on the redirected flow"}));
                        return;
                    }
                    t.class("hop:caller-sets-credentials");
                }
                let _ = set_auth;
                let newuri = project_uri(nf.uri());
                e["uri"] = newuri.clone();
                e["newmethod"] = json!(nf.method().as_str());
                let nm = nf.method().as_str().to_string();
                let (lh, rr2) = match send_and_lex(nf) {
                    Some(x) => x,
                    None => {
                        t.ev(e);
                        t.ev(json!({"ev":"panic","during":"writing the head of the redirected request"}));
                        return;
                    }
                };
                e["target"] = json!(lh.target);
                let hosts: Vec<&(String, Vec<u8>)> = lh.fields.iter().filter(|f| f.0 == "host").collect();
                e["hostline"] = json!(if hosts.len() == 1 { String::from_utf8_lossy(&hosts[0].1).to_string() } else { format!("<{} host fields>", hosts.len()) });
                // inherited = on the wire without having been set by the caller on this flow
                let mine = |f: &&(String, Vec<u8>)| opt.readd && (f.1 == mine_auth || f.1 == mine_cookie);
                e["auth"] = json!(lh.fields.iter().filter(|f| !mine(f)).any(|f| f.0 == "authorization"));
                e["cookie"] = json!(lh.fields.iter().filter(|f| !mine(f)).any(|f| f.0 == "cookie"));
                if opt.readd {
                    // what the caller set must be there (C16 checks order and multiplicity)
                    e["mine_sent"] = json!(lh.fields.iter().any(|f| f.0 == "cookie" && f.1 == mine_cookie));
                }
                debug_assert!(ORIG_AUTH.len() + ORIG_COOKIE.len() == 5);
                e["clen"] = json!(lh.fields.iter().any(|f| f.0 == "content-length"));
                if e["auth"] == json!(true) {
                    t.class("hop:auth-kept");
                }
                t.ev(e);
                rr = rr2;
                cur = newuri;
                cur_method = nm;
            }
        }
    }
}

fn mk_ref(kind: &str, scheme: &str, host: &str, port: u64, segs: &[&str], q: &str) -> Value {
    json!({"kind": kind, "scheme": scheme, "host": host, "port": port, "segs": segs, "q": q})
}

fn bad_ref() -> Value {
    mk_ref("bad", "", "", 0, &[], "-")
}

static LONGQ: std::sync::OnceLock<String> = std::sync::OnceLock::new();

fn random_ref(rng: &mut StdRng) -> Value {
    // (a pre-signed download URL, a SAML / OAuth redirect: a few kilobytes of query are everyday)
    let longq: &str = LONGQ.get_or_init(|| format!("X-Amz-Signature={}&state={}", "0123456789abcdef".repeat(40), "s".repeat(2600)));
    let schemes = ["http", "https"];
    let hosts = ["a.test", "b.test", "sub.a.test", "127.0.0.1", "10.1.2.3", "api.test", "a.test.", "b.test.", "localhost", "app.localhost"];
    let ports = [0u64, 0, 8080, 80, 443];
    let qs = ["-", "-", "k=1", "a=b&c=d", "ids=1,2,3&sort=asc", "next=1,https://c.test/landing", longq, "-", "k=1", "a=b&c=d"];
    let seg_pool = ["p", "q", ".", "..", "long-segment_1", "", "x", "@52.37,4.89", "a;v=1"];
    let nseg = rng.gen_range(0..5);
    let mut segs: Vec<&str> = (0..nseg).map(|_| seg_pool[rng.gen_range(0..seg_pool.len())]).collect();
    match rng.gen_range(0..10) {
        0 | 1 | 2 => mk_ref("abs", schemes[rng.gen_range(0..2)], hosts[rng.gen_range(0..10)], ports[rng.gen_range(0..5)], &segs, qs[rng.gen_range(0..10)]),
        3 => mk_ref("net", "", hosts[rng.gen_range(0..10)], ports[rng.gen_range(0..5)], &segs, qs[rng.gen_range(0..10)]),
        4 | 5 => {
            // a path-absolute reference must not begin with "//" (that is a network-path reference)
            while segs.len() > 1 && segs[0].is_empty() {
                segs.remove(0);
            }
            if segs.is_empty() {
                segs.push("");
            }
            mk_ref("abspath", "", "", 0, &segs, qs[rng.gen_range(0..10)])
        }
        6 | 7 => {
            // a relative path reference must not start with an empty segment (that would be a path-absolute
            // or network-path reference) and its first segment must not contain a colon
            segs.retain(|s| !s.is_empty());
            if segs.is_empty() {
                segs.push("rel");
            }
            mk_ref("relpath", "", "", 0, &segs, qs[rng.gen_range(0..10)])
        }
        8 => mk_ref("query", "", "", 0, &[], ["z=9", "k=1"][rng.gen_range(0..2)]),
        _ => mk_ref("empty", "", "", 0, &[], "-"),
    }
}

fn replay_redirect_scripts(o: &Opts, t: &mut Tracer) -> u64 {
    let path = match &o.scripts {
        Some(p) => p.clone(),
        None => return 0,
    };
    let text = std::fs::read_to_string(&path).expect("scripts file");
    let mut n = 0;
    let stride = if o.quick() { 16 } else { 2 };
    for (li, line) in text.lines().enumerate() {
        if li % stride != (o.seed as usize) % stride {
            continue;
        }
        let s: Value = serde_json::from_str(line).unwrap();
        if s["kind"] != "redirect" {
            continue;
        }
        let c = &s["coding"];
        let hops: Vec<Hop> = s["ops"].as_array().unwrap().iter().enumerate().map(|(i, op)| Hop {
            status: op["status"].as_u64().unwrap() as u16,
            r: op["ref"].clone(),
            bad: None,
            frag: (li + i) % 3 == 0,
            decoys: if (li + i) % 5 == 0 { 2 } else { 0 },
            with_body: (li + i) % 4 == 0,
        }).collect();
        run_chain(t, &c["orig"], c["method"].as_str().unwrap(), c["policy"] == "SameHost", &hops, "model-script");
        t.sig(format!("script/{}", li));
        n += 1;
    }
    n
}

/// `own_host`: originals may carry their own Host header naming another host than the URI (C13 only: what becomes of
/// that header on the redirected request is outside C14's quantifier — see DESIGN.md, observation OBS3)
pub fn c13_14(o: &Opts, t: &mut Tracer, own_host: bool) -> Value {
    let nscripts = replay_redirect_scripts(o, t);
    let mut rng = rng_for(o.seed, 0xC13);
    let schemes = ["http", "https"];
    let hosts = ["a.test", "b.test", "127.0.0.1", "[::1]", "localhost", "app.localhost"];
    let methods = ["GET", "HEAD", "POST", "PUT", "DELETE", "OPTIONS", "PATCH", "TRACE", "CONNECT"];
    let statuses = [300u16, 301, 302, 303, 305, 307, 308, 399];
    // seeded random chains of 1..4 hops, ending in dead ends (bad Location, not followed) now and then
    let nrand = if o.quick() { 600 } else { 40000 };
    for i in 0..nrand {
        let oport: u64 = [0u64, 8080, 0][rng.gen_range(0..3)];
        let osegs: Vec<&str> = [vec![""], vec!["x", "y"], vec!["x", "y", ""], vec!["deep", "er", "path", "file.html"]][rng.gen_range(0..4)].clone();
        let oq: &str = ["-", "q=1"][rng.gen_range(0..2)];
        let orig = json!({"scheme": schemes[rng.gen_range(0..2)], "host": hosts[[0usize, 1, 0, 1, 0, 2, 3, 4, 5][rng.gen_range(0..9)]], "port": oport, "segs": osegs, "q": oq});
        let nh = rng.gen_range(1..5);
        let mut hops = vec![];
        for k in 0..nh {
            let last = k + 1 == nh;
            let bad = if last && i % 9 == 0 { Some(["missing", "nontext", "ipv6", "spacehost", "utf8path", "utf8host", "kelvin", "latin1", "longhi", "longhi1", "longhi12", "asciihi", "asciihi1", "asciihi12", "asciihi123", "asciihi1234", "missing+lookalikes"][(i / 9) % 17]) } else { None };
            hops.push(Hop {
                status: statuses[rng.gen_range(0..8)],
                r: if bad.is_some() { bad_ref() } else { random_ref(&mut rng) },
                bad,
                frag: rng.gen_bool(0.3),
                decoys: if bad != Some("missing") && bad != Some("missing+lookalikes") && rng.gen_bool(0.2) { rng.gen_range(1..3) } else { 0 },
                with_body: rng.gen_bool(0.3),
            });
        }
        let m = methods[rng.gen_range(0..9)];
        t.sig(format!("rnd/{}/{}/{}", m, nh, i % 9 == 0));
        let opt = ChainOpt { despite: rng.gen_bool(0.15), despite_hops: rng.gen_bool(0.15), readd: rng.gen_bool(0.25), interim: rng.gen_bool(0.15), answer_in_await: rng.gen_bool(0.3), explicit_host: own_host && rng.gen_bool(0.2), ver10: rng.gen_bool(0.2), fillers: [0usize, 0, 0, 3, 70][rng.gen_range(0..5)],
                             userinfo: i % 10 == 7, both_framing: false };
        // (both framing headers on the original: the redirected request inherits the chunked coding and can only be sent with a forced body)
        let opt = ChainOpt { both_framing: opt.despite_hops && i % 2 == 0, ..opt };
        run_chain_opt(t, &orig, m, rng.gen_bool(0.6), &hops, "random-chain", opt);
    }
    // directed: leave and return, scheme downgrade on the same host, same host different port
    let a = |scheme: &str, host: &str, port: u64| json!({"scheme": scheme, "host": host, "port": port, "segs": ["x", "y"], "q": "-"});
    let abs = |scheme: &str, host: &str, port: u64| mk_ref("abs", scheme, host, port, &["t"], "-");
    let rel = mk_ref("relpath", "", "", 0, &["..", "z"], "-");
    let absp = mk_ref("abspath", "", "", 0, &["n"], "k=1");
    for same in [true, false] {
        for st in [302u16, 307] {
            let h = |r: Value| Hop { status: st, r, bad: None, frag: false, decoys: 0, with_body: false };
            run_chain(t, &a("https", "a.test", 0), "GET", same, &[h(abs("https", "b.test", 0)), h(absp.clone()), h(abs("https", "a.test", 0)), h(rel.clone())], "leave-and-return");
            run_chain(t, &a("https", "a.test", 0), "GET", same, &[h(abs("http", "a.test", 0)), h(rel.clone()), h(abs("https", "a.test", 0))], "downgrade-same-host");
            run_chain(t, &a("http", "a.test", 0), "GET", same, &[h(abs("https", "a.test", 0)), h(abs("http", "a.test", 8080)), h(absp.clone())], "upgrade-then-port");
            // the rule knows no special host names
            for name in ["localhost", "app.localhost", "intranet", "a.test"] {
                run_chain(t, &a("https", name, 0), "GET", same, &[h(abs("http", name, 0)), h(absp.clone()), h(abs("https", name, 0)), h(abs("http", name, 8080))], "downgrade-same-host-by-name");
            }
            // a redirect that only appends a slash (directory canonicalisation), on the first host and after leaving it
            run_chain(t, &a("http", "a.test", 0), "GET", same, &[h(mk_ref("abspath", "", "", 0, &["x", "y", ""], "-")), h(abs("http", "b.test", 0)), h(mk_ref("abspath", "", "", 0, &["t", ""], "-")), h(mk_ref("relpath", "", "", 0, &["sub"], "-")), h(mk_ref("relpath", "", "", 0, &["sub", ""], "-"))], "append-slash");
            run_chain(t, &a("http", "a.test", 8080), "HEAD", same, &[h(mk_ref("net", "", "b.test", 0, &["m"], "-")), h(mk_ref("net", "", "a.test", 8080, &[], "-")), h(mk_ref("query", "", "", 0, &[], "z=9"))], "scheme-relative");
            // address literals are hosts like any other: two different addresses are two different hosts
            run_chain(t, &a("https", "127.0.0.1", 0), "GET", same, &[h(abs("https", "10.1.2.3", 0)), h(absp.clone()), h(abs("https", "127.0.0.1", 0))], "ip-literal-leave-and-return");
            run_chain(t, &a("http", "[::1]", 8080), "GET", same, &[h(abs("http", "[::2]", 8080)), h(abs("http", "127.0.0.1", 8080)), h(abs("http", "[::1]", 8080))], "ipv6-literal-leave-and-return");
            for opt in [ChainOpt { readd: true, ..Default::default() }, ChainOpt { despite_hops: true, ..Default::default() }, ChainOpt { interim: true, ..Default::default() },
                        ChainOpt { readd: true, despite_hops: true, interim: true, despite: true, ..Default::default() },
                        ChainOpt { userinfo: true, ..Default::default() }, ChainOpt { userinfo: true, readd: true, ..Default::default() }, ChainOpt { both_framing: true, despite_hops: true, ..Default::default() }, ChainOpt { answer_in_await: true, ..Default::default() },
                        ChainOpt { explicit_host: own_host, ..Default::default() }, ChainOpt { ver10: true, despite_hops: true, ..Default::default() }] {
                run_chain_opt(t, &a("https", "a.test", 0), "GET", same, &[h(absp.clone()), h(abs("https", "b.test", 0)), h(rel.clone()), h(abs("https", "a.test", 0))], "caller-options", opt);
                run_chain_opt(t, &a("http", "a.test", 0), "POST", same, &[h(absp.clone()), h(rel.clone())], "caller-options", opt);
            }
            // the caller's own Host header says "api.test": that is not the host the request was sent to
            run_chain_opt(t, &a("https", "a.test", 0), "GET", same, &[h(abs("https", "api.test", 0)), h(absp.clone()), h(abs("https", "b.test", 0)), h(abs("https", "api.test", 8443))], "explicit-host-header",
                          ChainOpt { explicit_host: own_host, ..Default::default() });
            // the root label makes another host of it (another Host header, another TLS name)
            run_chain(t, &a("https", "a.test", 0), "GET", same, &[h(abs("https", "a.test.", 0)), h(absp.clone()), h(abs("https", "a.test", 0)), h(mk_ref("net", "", "a.test.", 0, &["x"], "-"))], "root-label-host");
            run_chain_opt(t, &a("https", "a.test", 0), "GET", same, &[h(abs("https", "b.test", 0)), h(absp.clone()), h(abs("https", "a.test", 0))], "many-original-headers", ChainOpt { fillers: 70, ..Default::default() });
            run_chain_opt(t, &a("http", "a.test", 0), "POST", same, &[h(absp.clone()), h(abs("http", "b.test", 0))], "many-original-headers", ChainOpt { fillers: 64, ..Default::default() });
            t.sig(format!("directed/{}/{}", same, st));
        }
    }
    json!({"scripts": nscripts, "random_chains": nrand})
}

pub fn c15(o: &Opts, t: &mut Tracer) -> Value {
    let methods = ["GET", "HEAD", "POST", "PUT", "DELETE", "OPTIONS", "PATCH", "TRACE", "CONNECT"];
    let orig = json!({"scheme": "http", "host": "a.test", "port": 0, "segs": ["x", "y"], "q": "-"});
    let mut n = 0;
    for m in methods {
        for st in 300u16..=399 {
            for same in [false, true] {
                for with_body in [false, true] {
                    let r = match (st as usize + n) % 7 {
                        0 => mk_ref("abs", "https", "b.test", 0, &["t"], "-"),
                        3 => mk_ref("abs", ["http", "https"][(n / 7) % 2], "b.test", 8080, &["t"], "-"),
                        // back to the very URI just requested: still a redirect to follow
                        1 => mk_ref("abspath", "", "", 0, &["x", "y"], "-"),
                        4 => mk_ref("relpath", "", "", 0, &["y"], "-"),
                        5 => mk_ref("empty", "", "", 0, &[], "-"),
                        // the same resource over https (a blanket http -> https upgrade)
                        6 => mk_ref("abs", "https", "a.test", 0, &["x", "y"], "-"),
                        _ => mk_ref("abspath", "", "", 0, &["next"], "-"),
                    };
                    if matches!((st as usize + n) % 7, 1 | 4 | 5) {
                        t.class("hop:to-the-same-uri");
                    }
                    let despite = !matches!(m, "POST" | "PUT" | "PATCH") && (st as usize + n) % 4 == 1;
                    let opt = ChainOpt { despite, despite_hops: (st as usize + n) % 5 == 2, readd: (st as usize + n) % 7 == 3, interim: (st as usize + n / 4) % 3 == 1, answer_in_await: (st as usize + n / 2) % 2 == 0, explicit_host: false, ver10: (st as usize + n) % 11 == 5, fillers: 0, userinfo: (st as usize + n) % 13 == 6, both_framing: false };
                    let mut hops = vec![Hop { status: st, r, bad: None, frag: false, decoys: 0, with_body }];
                    if (st as usize + n) % 4 == 2 {
                        // the table applies hop by hop: the method of a later hop is decided from the method the previous hop produced
                        hops.push(Hop { status: [302u16, 307, 301, 308, 303][n % 5], r: mk_ref("abspath", "", "", 0, &["again"], "-"), bad: None, frag: false, decoys: 0, with_body: false });
                        hops.push(Hop { status: [307u16, 302][n % 2], r: mk_ref("relpath", "", "", 0, &["once-more"], "-"), bad: None, frag: false, decoys: 0, with_body: false });
                        t.class("hop:chain-in-c15");
                    }
                    run_chain_opt(t, &orig, m, same, &hops, "c15", opt);
                    n += 1;
                }
            }
            t.sig(format!("c15/{}/{}", m, st));
        }
    }
    // the redirect state is a matter of the status alone: a 3xx without any Location enters it too (and cannot be followed)
    for (k, st) in [300u16, 301, 302, 303, 305, 307, 308, 399, 304].iter().enumerate() {
        for with_body in [false, true] {
            run_chain_opt(t, &orig, ["GET", "POST", "HEAD"][k % 3], k % 2 == 0, &[Hop { status: *st, r: bad_ref(), bad: Some(if k % 2 == 0 { "missing" } else { "missing+lookalikes" }), frag: false, decoys: 0, with_body }], "c15-no-location", ChainOpt::default());
            n += 1;
        }
    }
    t.class("hop:no-location");
    // the table has no hop count in it: long chains, and Locations of every length
    for (k, m) in ["GET", "HEAD", "OPTIONS", "POST", "TRACE"].iter().enumerate() {
        let hops: Vec<Hop> = (0..14).map(|j| Hop { status: [302u16, 307, 301, 308, 303][(j + k) % 5], r: mk_ref("abspath", "", "", 0, &["hop", ["a", "b", "c"][j % 3]], ["-", "n=1"][j % 2]), bad: None, frag: false, decoys: 0, with_body: j % 4 == 3 }).collect();
        run_chain_opt(t, &orig, m, k % 2 == 0, &hops, "c15-long-chain", ChainOpt::default());
        t.class("hop:long-chain");
        let longq = format!("state={}", "s".repeat([300usize, 9000, 20000, 8192 - 20, 40000][k]));
        let h2 = vec![Hop { status: [302u16, 307, 303, 301, 308][k], r: json!({"kind":"abspath","scheme":"","host":"","port":0,"segs":["sso","callback"],"q":longq}), bad: None, frag: false, decoys: 0, with_body: false },
                      Hop { status: 302, r: mk_ref("relpath", "", "", 0, &["done"], "-"), bad: None, frag: false, decoys: 0, with_body: false }];
        run_chain_opt(t, &orig, m, k % 2 == 1, &h2, "c15-long-location", ChainOpt::default());
        n += 2;
    }
    let _ = o;
    json!({"flows": n})
}
