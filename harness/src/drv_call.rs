//! Extra (not a listed property): random histories over the single-call API `Call<State, B>`,
//! validated against spec/CallApi.tla.
use crate::fx::simple_request;
use crate::util::*;
use serde_json::{json, Value};
use ureq_proto::client::call::Call;

pub fn x01(o: &Opts, t: &mut Tracer) -> Value {
    let mut rng = rng_for(o.seed, 0xCA11);
    let n = if o.quick() { 1500 } else { 60000 };
    for i in 0..n {
        let with_body = i % 2 == 0;
        let method = if with_body { ["POST", "PUT", "PATCH"][i % 3] } else { ["GET", "HEAD", "DELETE", "OPTIONS"][i % 4] };
        t.case(json!({"ev":"case","comp":"call","with_body":with_body,"method":method}));
        let premature = rng.gen_range(0..6);
        t.sig(format!("x01/{}/{}/{}", method, premature, i % 7));
        let req = simple_request(method, "http://h.test/p");
        let mut acc: Vec<u8> = vec![];
        let mut buf = vec![0u8; 512];
        // ---- sending
        let recv = if with_body {
            let mut c = match Call::with_body(req) {
                Ok(c) => c,
                Err(_) => continue,
            };
            let mut steps = 0;
            let mut given_up = false;
            loop {
                steps += 1;
                let fin = c.is_finished();
                t.ev(json!({"ev":"cfin","val":fin}));
                if fin || steps > 12 || (premature == steps) {
                    given_up = !fin;
                    break;
                }
                let head_done = acc.ends_with(b"\r\n\r\n");
                let input: &[u8] = if head_done && rng.gen_bool(0.5) { b"data" } else { &[] };
                let outl = [7usize, 30, 512][rng.gen_range(0..3)];
                match guarded(|| c.write(input, &mut buf[..outl])) {
                    Some(Ok((_, p))) => {
                        if !head_done {
                            acc.extend(&buf[..p]);
                        }
                        t.ev(json!({"ev":"cwrite","res":"ok","head_done":acc.ends_with(b"\r\n\r\n"),"wended":c.is_finished()}));
                    }
                    Some(Err(_)) => t.ev(json!({"ev":"cwrite","res":"err","head_done":acc.ends_with(b"\r\n\r\n"),"wended":c.is_finished()})),
                    None => {
                        t.ev(json!({"ev":"panic","during":"Call::write"}));
                        break;
                    }
                }
            }
            let _ = given_up;
            match guarded(|| c.into_receive()) {
                Some(Ok(r)) => {
                    t.ev(json!({"ev":"crecv","res":"ok"}));
                    Some(r)
                }
                Some(Err(_)) => {
                    t.ev(json!({"ev":"crecv","res":"err"}));
                    None
                }
                None => {
                    t.ev(json!({"ev":"panic","during":"into_receive"}));
                    None
                }
            }
        } else {
            let mut c = match Call::without_body(req) {
                Ok(c) => c,
                Err(_) => continue,
            };
            let mut steps = 0;
            loop {
                steps += 1;
                let fin = c.is_finished();
                t.ev(json!({"ev":"cfin","val":fin}));
                if fin || steps > 12 || premature == steps {
                    break;
                }
                let outl = [7usize, 30, 512][rng.gen_range(0..3)];
                match guarded(|| c.write(&mut buf[..outl])) {
                    Some(Ok(p)) => {
                        acc.extend(&buf[..p]);
                        t.ev(json!({"ev":"cwrite","res":"ok","head_done":acc.ends_with(b"\r\n\r\n"),"wended":true}));
                    }
                    Some(Err(_)) => t.ev(json!({"ev":"cwrite","res":"err","head_done":acc.ends_with(b"\r\n\r\n"),"wended":true})),
                    None => {
                        t.ev(json!({"ev":"panic","during":"Call::write"}));
                        break;
                    }
                }
            }
            match guarded(|| c.into_receive()) {
                Some(Ok(r)) => {
                    t.ev(json!({"ev":"crecv","res":"ok"}));
                    Some(r)
                }
                Some(Err(_)) => {
                    t.ev(json!({"ev":"crecv","res":"err"}));
                    None
                }
                None => {
                    t.ev(json!({"ev":"panic","during":"into_receive"}));
                    None
                }
            }
        };
        // ---- receiving
        let mut r = match recv {
            Some(r) => r,
            None => continue,
        };
        let (head, mode): (&[u8], &str) = match rng.gen_range(0..5) {
            0 => (b"HTTP/1.1 200 OK\r\nContent-Length: 3\r\n\r\n", "Length"),
            1 => (b"HTTP/1.1 200 OK\r\nTransfer-Encoding: chunked\r\n\r\n", "Chunked"),
            2 => (b"HTTP/1.1 200 OK\r\nServer: x\r\n\r\n", "Close"),
            3 => (b"HTTP/1.1 204 No Content\r\n\r\n", "NoBody"),
            _ => (b"HTTP/1.1 200 OK\r\nContent-Length: 0\r\n\r\n", "Length"),
        };
        let mode = if method == "HEAD" { "NoBody" } else { mode };
        t.ev(json!({"ev":"cfin","val":r.is_finished()}));
        if rng.gen_bool(0.3) {
            // asking for the body before any response
            match guarded(|| r.into_body()) {
                Some(Ok(None)) => t.ev(json!({"ev":"cbody","res":"none"})),
                Some(Ok(Some(_))) => t.ev(json!({"ev":"cbody","res":"body"})),
                Some(Err(_)) => t.ev(json!({"ev":"cbody","res":"err"})),
                None => t.ev(json!({"ev":"panic","during":"into_body"})),
            }
            continue;
        }
        if rng.gen_bool(0.5) {
            let cut = rng.gen_range(0..head.len().min(14));
            let res = match guarded(|| r.try_response(&head[..cut])) {
                Some(Ok(None)) => "none",
                Some(Ok(Some(_))) => "some",
                Some(Err(_)) => "err",
                None => "panic",
            };
            t.ev(json!({"ev":"cresp","kind":"partial","res":res,"mode":"unset"}));
            t.ev(json!({"ev":"cfin","val":r.is_finished()}));
        }
        let res = match guarded(|| r.try_response(head)) {
            Some(Ok(None)) => "none",
            Some(Ok(Some(_))) => "some",
            Some(Err(_)) => "err",
            None => "panic",
        };
        t.ev(json!({"ev":"cresp","kind":"final","res":res,"mode":mode}));
        t.ev(json!({"ev":"cfin","val":r.is_finished()}));
        match guarded(|| r.into_body()) {
            Some(Ok(None)) => t.ev(json!({"ev":"cbody","res":"none"})),
            Some(Ok(Some(b))) => {
                t.ev(json!({"ev":"cbody","res":"body"}));
                t.ev(json!({"ev":"cq","closedelim":b.is_close_delimited(),"ended":b.is_ended()}));
            }
            Some(Err(_)) => t.ev(json!({"ev":"cbody","res":"err"})),
            None => t.ev(json!({"ev":"panic","during":"into_body"})),
        }
    }
    json!({"histories": n})
}
