//! Drivers for the request-body writer: C03 (chunked), C04 (sized), C18 (max input), C19 (progress).
use crate::lex::lex_chunks;
use crate::util::*;
use serde_json::{json, Value};
use ureq_proto::client::call::state::WithBody;
use ureq_proto::client::call::Call;
use ureq_proto::client::flow::state::SendBody;
use ureq_proto::client::flow::{Flow, SendRequestResult};
use ureq_proto::http::Request;

pub enum Wut {
    Flow(Flow<(), SendBody>),
    Call(Call<WithBody, ()>),
    /// the send-body state could not be reached (reported as such; every call on it fails)
    Dead,
}

#[derive(Clone, Copy, PartialEq, Eq, Debug)]
pub enum Kind {
    Sized(u64),
    Chunked,
}

pub fn post_request(kind: Kind, explicit_te: bool, ver10: bool) -> Request<()> {
    post_request_v(kind, explicit_te, ver10, 0)
}

/// `variant` diversifies how the send-body state is reached: method, Expect handshake, despite-method
pub fn post_request_v(kind: Kind, explicit_te: bool, ver10: bool, variant: usize) -> Request<()> {
    let method = if ver10 { "POST" } else { ["POST", "PUT", "PATCH", "POST", "GET", "DELETE"][variant % 6] };
    // variant % 17 == 11: origin-form request target and no Host at all (the caller talks to a known peer)
    let relative = variant % 17 == 11 && variant % 3 != 0;
    let mut b = Request::builder().method(method).uri(if relative { "/upload?x=1" } else { "http://h.test/upload" });
    if relative {
        b = b.header("x-peer", "known");
    }
    if variant % 4 == 1 {
        b = b.header("expect", "100-continue");
    }
    if variant % 5 == 2 {
        b = b.header("connection", "close").header("x-extra", "1");
    }
    if variant % 3 == 0 {
        // the caller supplies Host itself
        b = b.header("host", "virtual.test");
    }
    if ver10 {
        b = b.version(ureq_proto::http::Version::HTTP_10);
    }
    match kind {
        // variant % 7 == 3 (flow API): the length is declared in the Prepare state instead (Flow::header)
        Kind::Sized(n) if variant % 7 != 3 => {
            b = b.header("content-length", n.to_string());
            if variant % 11 == 7 && !ver10 {
                // a transfer coding other than chunked next to the length: the body is still length-delimited
                b = b.header("transfer-encoding", ["gzip", "identity", "deflate, gzip"][(variant / 11) % 3]);
            }
        }
        Kind::Sized(_) => {}
        Kind::Chunked => {
            if explicit_te {
                // the coding name is case-insensitive
                b = b.header("transfer-encoding", ["chunked", "Chunked", "chunked", "CHUNKED", "chunKed"][variant % 5]);
                if variant % 11 == 5 {
                    // a Content-Length next to chunked: the chunked coding wins and the length binds nothing
                    b = b.header("content-length", ["7", "0", "100000"][(variant / 11) % 3]);
                }
            }
        }
    }
    b.body(()).unwrap()
}

impl Wut {
    pub fn new(api: &str, kind: Kind, explicit_te: bool) -> Wut {
        Wut::new_v(api, kind, explicit_te, false)
    }
    pub fn new_v(api: &str, kind: Kind, explicit_te: bool, ver10: bool) -> Wut {
        Wut::new_vv(api, kind, explicit_te, ver10, 0)
    }
    pub fn new_vv(api: &str, kind: Kind, explicit_te: bool, ver10: bool, variant: usize) -> Wut {
        // the single-call constructor with_body takes body methods only
        let variant = if api == "flow" { variant } else { variant - variant % 6 + (variant % 6) % 3 };
        let variant = if api != "flow" && variant % 7 == 3 { variant + 6 } else { variant };
        let req = post_request_v(kind, explicit_te, ver10, variant);
        let despite = matches!(req.method().as_str(), "GET" | "DELETE");
        let mut buf = vec![0u8; 2048];
        if api == "flow" && variant % 13 == 9 && !ver10 {
            // the send-body state of a request that follows a redirect: the previous exchange carried its own
            // Content-Length (and body); this request gets a body despite its method
            let first = Request::builder().method("POST").uri("http://h.test/first").header("content-length", "3").header("x-first", "1").body(()).unwrap();
            let f = Flow::new(first).unwrap();
            let mut rr = {
                let mut f = f.proceed();
                for _ in 0..400 {
                    if f.can_proceed() {
                        break;
                    }
                    f.write(&mut buf).unwrap();
                }
                match f.proceed().unwrap().unwrap() {
                    SendRequestResult::SendBody(mut sb) => {
                        sb.write(b"abc", &mut buf).unwrap();
                        sb.proceed().expect("harness: first body sent")
                    }
                    _ => panic!("harness: expected SendBody for the first request"),
                }
            };
            rr.try_response(b"HTTP/1.1 302 Found\r\nLocation: /upload\r\nContent-Length: 0\r\n\r\n").unwrap();
            let mut red = match rr.proceed().unwrap() {
                ureq_proto::client::flow::RecvResponseResult::Redirect(r) => r,
                _ => panic!("harness: expected Redirect"),
            };
            let mut f0 = red.as_new_flow(ureq_proto::client::flow::RedirectAuthHeaders::Never).unwrap().unwrap();
            f0.send_body_despite_method();
            match kind {
                Kind::Sized(n) => f0.header("content-length", n.to_string()).unwrap(),
                Kind::Chunked => {
                    if explicit_te {
                        f0.header("transfer-encoding", "chunked").unwrap()
                    }
                }
            }
            let mut f = f0.proceed();
            for _ in 0..400 {
                if f.can_proceed() {
                    break;
                }
                f.write(&mut buf).unwrap();
            }
            return match f.proceed().unwrap().unwrap() {
                SendRequestResult::SendBody(f) => Wut::Flow(f),
                _ => panic!("harness: expected SendBody after the redirect"),
            };
        }
        if api == "flow" {
            drop(req);
            let te_in_prepare = kind == Kind::Chunked && !explicit_te && variant % 9 == 4;
            let build = || {
                let mut req = post_request_v(kind, explicit_te, ver10, variant);
                if te_in_prepare && variant % 2 == 0 {
                    // the request object came with a Content-Length; the caller then declares the chunked coding on the flow
                    req.headers_mut().insert("content-length", ureq_proto::http::HeaderValue::from_static("7"));
                }
                let mut f0 = Flow::new(req).unwrap();
                if let (Kind::Sized(n), 3) = (kind, variant % 7) {
                    f0.header("content-length", n.to_string()).unwrap();
                }
                if te_in_prepare {
                    f0.header("transfer-encoding", "chunked").unwrap();
                }
                if despite {
                    f0.send_body_despite_method();
                }
                f0.proceed()
            };
            let mut f = build();
            if variant % 5 == 3 {
                // the head goes out through buffers that end exactly at (or one byte behind) its last header line, so that only the
                // final empty line is left for the next call; then through whatever the caller has
                let mut twin = build();
                let n = twin.write(&mut buf).unwrap();
                let lens = crate::drv_req::lex_head(&buf[..n]).lens;
                if twin.can_proceed() && lens.len() >= 2 {
                    let upto: usize = lens[..lens.len() - 1].iter().sum();
                    let first = upto + (variant / 5) % 2;
                    let _ = f.write(&mut buf[..first]).unwrap();
                }
            }
            for _ in 0..400 {
                if f.can_proceed() {
                    break;
                }
                f.write(&mut buf).unwrap();
            }
            // a further write in the send-request state is permitted and must not touch the body
            let _ = f.write(&mut buf[..64]);
            match f.proceed().unwrap().unwrap() {
                SendRequestResult::SendBody(f) => Wut::Flow(f),
                SendRequestResult::Await100(mut a) => {
                    // reach the body through the handshake: a 100 arrives, or the caller gives up waiting
                    if variant % 8 < 4 {
                        let _ = a.try_read_100(b"HTTP/1.1 100 Continue\r\n\r\n");
                    } else {
                        let _ = a.try_read_100(b"HTTP/1.1 1");
                    }
                    match a.proceed().unwrap() {
                        ureq_proto::client::flow::Await100Result::SendBody(f) => Wut::Flow(f),
                        _ => panic!("harness: expected SendBody after the handshake"),
                    }
                }
                _ => panic!("harness: expected SendBody"),
            }
        } else {
            let mut c = Call::with_body(req).unwrap();
            // the head ends with an empty line; stop there (a further empty write would end the body)
            let mut acc: Vec<u8> = vec![];
            for _ in 0..400 {
                let (i, n) = c.write(&[], &mut buf).unwrap();
                assert_eq!(i, 0);
                acc.extend(&buf[..n]);
                if acc.ends_with(b"\r\n\r\n") {
                    break;
                }
            }
            Wut::Call(c)
        }
    }
    pub fn write(&mut self, input: &[u8], out: &mut [u8]) -> Option<Result<(usize, usize), ureq_proto::Error>> {
        match self {
            Wut::Flow(f) => guarded(|| f.write(input, out)),
            Wut::Call(c) => guarded(|| c.write(input, out)),
            Wut::Dead => None,
        }
    }
    pub fn ready(&self) -> bool {
        match self {
            Wut::Flow(f) => guarded(|| f.can_proceed()).unwrap_or(false),
            Wut::Call(c) => guarded(|| c.is_finished()).unwrap_or(false),
            Wut::Dead => false,
        }
    }
    pub fn has_direct(&self) -> bool {
        matches!(self, Wut::Flow(_))
    }
    pub fn direct(&mut self, amt: usize) -> Option<Result<(), ureq_proto::Error>> {
        match self {
            Wut::Flow(f) => guarded(|| f.consume_direct_write(amt)),
            Wut::Call(_) => unreachable!(),
            Wut::Dead => None,
        }
    }
    pub fn is_chunked(&mut self) -> Option<bool> {
        match self {
            Wut::Flow(f) => guarded(|| f.is_chunked()),
            _ => None,
        }
    }
    pub fn max_input(&mut self, n: usize) -> Option<usize> {
        match self {
            Wut::Flow(f) => guarded(|| f.calculate_max_input(n)),
            Wut::Call(_) => unreachable!(),
            Wut::Dead => None,
        }
    }
}

pub fn start_case(t: &mut Tracer, api: &str, kind: Kind, explicit_te: bool, note: &str) -> Wut {
    // every fourth writer belongs to an HTTP/1.0 request (POST exists there too)
    let ver10 = t.cases % 4 == 3;
    let variant = (t.cases / 2) as usize;
    start_case_shape(t, api, kind, explicit_te, note, ver10, variant)
}

/// the writer of a request of a given shape (`variant` selects method, headers and the way to the send-body state)
pub fn start_case_shape(t: &mut Tracer, api: &str, kind: Kind, explicit_te: bool, note: &str, ver10: bool, variant: usize) -> Wut {
    // a failure of the harness's own expectations on the way to the send-body state is data, not a crash
    let w = guarded(|| Wut::new_vv(api, kind, explicit_te, ver10, variant));
    let (k, n) = match kind {
        Kind::Sized(n) => ("sized", n),
        Kind::Chunked => ("chunked", 0),
    };
    match w {
        Some(w) => {
            t.case(json!({"ev":"case","comp":"bw","kind":k,"N":limbs(n),"ready0":w.ready(),"api":api,"note":note,"ver10":ver10}));
            w
        }
        None => {
            t.case(json!({"ev":"case","comp":"bw","kind":k,"N":limbs(n),"ready0":false,"api":api,"note":"send-body state not reached","ver10":ver10}));
            t.ev(json!({"ev":"stuck","during":"reaching the send-body state of a valid request with a body"}));
            Wut::Dead
        }
    }
}

#[derive(Default, Clone, Copy)]
pub struct WFlags {
    pub probe: bool,
    pub m: usize,
    pub maxprobe: bool,
}

/// One body write on the writer under test, logged as a `w` event. Returns (consumed, ok).
pub fn ev_write(t: &mut Tracer, w: &mut Wut, kind: Kind, input: &[u8], outl: usize, fl: WFlags) -> (usize, bool) {
    let mut out = vec![0xA5u8; outl];
    let res = w.write(input, &mut out);
    let ready = w.ready();
    let mut e = json!({"ev":"w","inl":input.len(),"outl":outl,"ready":ready});
    if fl.probe {
        e["probe"] = json!(true);
        e["m"] = json!(fl.m);
    }
    if fl.maxprobe {
        e["maxprobe"] = json!(true);
    }
    let mut ret = (0, false);
    match res {
        None => {
            t.ev(json!({"ev":"panic","during":"body write"}));
            return ret;
        }
        Some(Err(err)) => {
            e["res"] = json!("err");
            e["err"] = json!(format!("{:?}", err));
            e["c"] = json!(0);
            e["p"] = json!(0);
            e["copy_ok"] = json!(true);
            e["chunks"] = json!([]);
            e["term"] = json!(0);
            e["termlen"] = json!(0);
            e["junk"] = json!(false);
            t.class("w:err");
        }
        Some(Ok((c, p))) => {
            e["res"] = json!("ok");
            e["c"] = json!(c);
            e["p"] = json!(p);
            ret = (c, true);
            let pp = p.min(outl);
            match kind {
                Kind::Sized(_) => {
                    e["copy_ok"] = json!(p <= outl && p <= input.len() && out[..pp] == input[..pp.min(input.len())]);
                    e["chunks"] = json!([]);
                    e["term"] = json!(0);
                    e["termlen"] = json!(0);
                    e["junk"] = json!(false);
                    if input.is_empty() {
                        t.class("w:sized-empty");
                    }
                }
                Kind::Chunked => {
                    let lx = lex_chunks(&out[..pp], input);
                    e["copy_ok"] = json!(true);
                    if lx.term > 0 {
                        t.class("w:term");
                    }
                    if lx.chunks.len() > 1 {
                        t.class("w:multi-chunk");
                    }
                    if input.is_empty() && lx.term == 0 {
                        t.class("w:finish-no-room");
                    }
                    if !input.is_empty() && c == 0 {
                        t.class("w:no-progress");
                    }
                    if !input.is_empty() && c < input.len() {
                        t.class("w:partial");
                    }
                    e["chunks"] = Value::Array(lx.chunks);
                    e["term"] = json!(lx.term);
                    e["termlen"] = json!(lx.termlen);
                    e["junk"] = json!(lx.junk || p > outl);
                }
            }
        }
    }
    t.ev(e);
    ret
}

pub fn ev_direct(t: &mut Tracer, w: &mut Wut, amt: usize) {
    let res = w.direct(amt);
    let ready = w.ready();
    match res {
        None => t.ev(json!({"ev":"panic","during":"consume_direct_write"})),
        Some(r) => {
            t.class(if r.is_ok() { "dw:ok" } else { "dw:err" });
            t.ev(json!({"ev":"dw","amt":limbs(amt as u64),"res": if r.is_ok() {"ok"} else {"err"},"ready":ready}))
        }
    }
}

pub fn ev_max(t: &mut Tracer, w: &mut Wut, kind: Kind, n: usize) -> usize {
    match w.max_input(n) {
        None => {
            t.ev(json!({"ev":"panic","during":"calculate_max_input"}));
            0
        }
        Some(m) => {
            t.ev(json!({"ev":"mx","n":n,"m":m,"chunked": kind == Kind::Chunked,"ready": w.ready()}));
            m
        }
    }
}

/// The last call on a writer: leave the send-body state (Flow::proceed / Call::into_receive). It must succeed exactly
/// when the body is reported finished.
pub fn ev_advance(t: &mut Tracer, w: Wut) {
    let ready = w.ready();
    let adv = match w {
        Wut::Flow(f) => guarded(|| f.proceed().is_some()),
        Wut::Call(c) => guarded(|| c.into_receive().is_ok()),
        Wut::Dead => return,
    };
    match adv {
        Some(a) => {
            t.class(if a { "adv:advanced" } else { "adv:refused" });
            t.ev(json!({"ev":"adv","ready":ready,"advanced":a}))
        }
        None => t.ev(json!({"ev":"panic","during":"leaving the send-body state"})),
    }
}

const APIS: [&str; 2] = ["flow", "call"];

// ------------------------------------------------------------------------------------------ C03

pub fn c03(o: &Opts, t: &mut Tracer) {
    let data = payload(4 * 10240 + 64, 3);
    let kind = Kind::Chunked;
    let finish_tail: [(usize, usize); 5] = [(0, 3), (0, 4), (0, 5), (0, 5), (1, 10)];
    let ins = [0usize, 1, 2, 5, 15, 16, 17, 255, 256, 257];
    // (a) grid of single writes, each followed by the finishing tail
    for api in APIS {
        for outl in 0..=40usize {
            for &inl in &ins {
                if o.quick() && api == "call" && outl % 3 != 0 {
                    continue;
                }
                let mut w = start_case(t, api, kind, outl % 2 == 0, "grid");
                t.sig(format!("grid/{}/{}/{}", api, outl, inl));
                ev_write(t, &mut w, kind, &data[..inl], outl, WFlags::default());
                for &(i, ol) in &finish_tail {
                    ev_write(t, &mut w, kind, &data[..i], ol, WFlags::default());
                }
            }
        }
    }
    // (a2) a caller that tries the direct-write path on a chunked body first: refused, and nothing changes
    for (k, amt) in [0usize, 1, 5, 100000].iter().enumerate() {
        for before in [0usize, 3] {
            let mut w = start_case(t, "flow", kind, k % 2 == 0, "direct-on-chunked");
            t.sig(format!("dwc/{}/{}", amt, before));
            if before > 0 {
                ev_write(t, &mut w, kind, &data[..before], 64, WFlags::default());
            }
            ev_direct(t, &mut w, *amt);
            ev_write(t, &mut w, kind, &data[..5], 64, WFlags::default());
            ev_direct(t, &mut w, *amt);
            for &(i, ol) in &finish_tail {
                ev_write(t, &mut w, kind, &data[..i], ol, WFlags::default());
            }
            ev_advance(t, w);
        }
    }
    // (a2') leaving the send-body state at every point of a body: before any write, after data, after a terminator that did not
    // fit, after the terminator; and the size-line growth points (16, 256, 4096 bytes of data) with ample and exact room
    for api in APIS {
        for (k, stop) in ["nothing", "data", "data+refused-end", "data+end", "end-only", "end-too-small"].iter().enumerate() {
            for inl in [1usize, 15, 16, 17, 255, 256, 257, 4095, 4096, 4097] {
                let mut w = start_case(t, api, kind, (k + inl) % 2 == 0, "advance-anywhere");
                t.sig(format!("adv/{}/{}/{}", api, stop, inl));
                if stop.starts_with("data") {
                    let hexd = format!("{:x}", inl).len();
                    let outl = if k % 2 == 0 { inl + hexd + 4 } else { inl + 64 };
                    ev_write(t, &mut w, kind, &data[..inl], outl, WFlags::default());
                }
                match *stop {
                    "data+refused-end" | "end-too-small" => {
                        ev_write(t, &mut w, kind, &[], 4, WFlags::default());
                    }
                    "data+end" | "end-only" => {
                        ev_write(t, &mut w, kind, &[], 5 + inl % 3, WFlags::default());
                    }
                    _ => {}
                }
                ev_advance(t, w);
            }
        }
    }
    t.class("w:advance-anywhere");
    // (a3) read-only queries at any point, also after the terminator: they change nothing
    for (k, outl) in [64usize, 5, 6, 11].iter().enumerate() {
        let mut w = start_case(t, "flow", kind, k % 2 == 1, "queries-anywhere");
        t.sig(format!("queries/{}", outl));
        t.class("w:queries-after-end");
        let _ = w.is_chunked();
        ev_write(t, &mut w, kind, &data[..7], *outl + 20, WFlags::default());
        let _ = w.max_input(100);
        ev_write(t, &mut w, kind, &[], *outl, WFlags::default());
        ev_write(t, &mut w, kind, &[], 64, WFlags::default());
        // the body is finished here
        let _ = w.is_chunked();
        let _ = w.max_input(64);
        ev_write(t, &mut w, kind, &[], 64, WFlags::default());
        ev_write(t, &mut w, kind, &data[..3], 64, WFlags::default());
        let _ = w.is_chunked();
        ev_write(t, &mut w, kind, &[], *outl, WFlags::default());
    }
    // (b) buffers that leave exactly 0..=6 bytes after a chunk, with more input pending
    for api in APIS {
        for &first in &[1usize, 15, 16, 255, 256] {
            let digits = format!("{:x}", first).len();
            let clen = digits + 2 + first + 2;
            for r in 0..=12usize {
                let mut w = start_case(t, api, kind, false, "leave-r");
                t.sig(format!("leave/{}/{}/{}", api, first, r));
                // first write: exactly `first` bytes into a buffer of clen + r
                ev_write(t, &mut w, kind, &data[..first + 7], clen + r, WFlags::default());
                ev_write(t, &mut w, kind, &data[..3], 9, WFlags::default());
                for fo in [r, 5, 0, 5] {
                    ev_write(t, &mut w, kind, &[], fo, WFlags::default());
                }
                ev_write(t, &mut w, kind, &data[..2], 64, WFlags::default());
                ev_advance(t, w);
            }
        }
    }
    // (c) around multiples of the 10 KiB chunk
    let span: i64 = if o.quick() { 7 } else { 12 };
    for k in 1..=3i64 {
        for d in -span..=span {
            let outl = (10248 * k + d) as usize;
            for &inl in &[10240 * k as usize - 1, 10240 * k as usize, 10240 * k as usize + 1, 3 * 10240 + 1] {
                let mut w = start_case(t, "flow", kind, false, "near-10k");
                t.sig(format!("10k/{}/{}/{}", k, d, inl));
                let (c, _) = ev_write(t, &mut w, kind, &data[..inl], outl, WFlags::default());
                ev_write(t, &mut w, kind, &data[c.min(inl)..inl], outl, WFlags::default());
                ev_write(t, &mut w, kind, &[], 4, WFlags::default());
                ev_write(t, &mut w, kind, &[], 5, WFlags::default());
            }
        }
    }
    // (d) finishing writes with tiny buffers, repeated and interleaved
    for api in APIS {
        for fo in 0..=12usize {
            for reps in 1..=4usize {
                let mut w = start_case(t, api, kind, true, "finish");
                t.sig(format!("fin/{}/{}/{}", api, fo, reps));
                ev_write(t, &mut w, kind, &data[..3], 64, WFlags::default());
                for _ in 0..reps {
                    ev_write(t, &mut w, kind, &[], fo, WFlags::default());
                }
                ev_write(t, &mut w, kind, &data[..1], fo + 6, WFlags::default());
                ev_write(t, &mut w, kind, &[], 12 - fo, WFlags::default());
                ev_write(t, &mut w, kind, &[], 64, WFlags::default());
                ev_write(t, &mut w, kind, &[], 64, WFlags::default());
                ev_write(t, &mut w, kind, &data[..4], 64, WFlags::default());
            }
        }
    }
    // (e) seeded random sequences
    let nrand = if o.quick() { 300 } else { 150000 };
    let mut rng = rng_for(o.seed, 0xC03);
    for i in 0..nrand {
        let api = APIS[i % 2];
        let mut w = start_case(t, api, kind, rng.gen_bool(0.5), "random");
        let steps = rng.gen_range(1..12);
        let mut shape = String::new();
        for _ in 0..steps {
            let inl = match rng.gen_range(0..10) {
                0..=2 => 0,
                3..=5 => rng.gen_range(1..20),
                6..=7 => rng.gen_range(20..600),
                8 => rng.gen_range(10230..10250),
                _ => rng.gen_range(10250..40000),
            };
            let outl = match rng.gen_range(0..10) {
                0..=3 => rng.gen_range(0..14),
                4..=6 => rng.gen_range(14..300),
                7 => rng.gen_range(10240..10262),
                8 => rng.gen_range(20480..20510),
                _ => rng.gen_range(300..45000),
            };
            shape.push_str(&format!("{}:{},", (inl as f64).log2() as i64, (outl as f64).log2() as i64));
            ev_write(t, &mut w, kind, &data[..inl], outl, WFlags::default());
        }
        t.sig(format!("rnd/{}", shape));
    }
}

// ------------------------------------------------------------------------------------------ C04

fn c04_schedule(t: &mut Tracer, api: &str, n: u64, rng: &mut StdRng, data: &[u8], style: u32) {
    let kind = Kind::Sized(n);
    let mut w = start_case(t, api, kind, false, "sized");
    let mut left = n;
    let mut steps = 0;
    t.sig(format!("c04/{}/{}/{}", api, n.min(70001), style));
    // overshoot by one at the very start when N is small
    if n < 70000 && style % 2 == 0 {
        let outl = [n as usize + 8, n as usize, (n as usize).saturating_sub(1), 1][(style as usize / 2) % 4];
        ev_write(t, &mut w, kind, &data[..(n as usize + 1)], outl, WFlags::default());
    }
    while steps < 40 {
        steps += 1;
        if style % 3 == 1 && steps >= 2 + style as usize % 4 {
            // the caller tries to leave in the middle of the body
            t.class("w:advance-attempt-mid-body");
            ev_advance(t, w);
            return;
        }
        if w.has_direct() && rng.gen_bool(0.2) {
            // the query a caller makes before every write, also with no room at all: read-only
            let asked = [0usize, 0, 1, 7, 100000][rng.gen_range(0..5)];
            ev_max(t, &mut w, kind, asked);
        }
        let l = left.min(70000) as usize;
        let choice = rng.gen_range(0..12);
        match choice {
            0 => {
                ev_write(t, &mut w, kind, &[], rng.gen_range(0..4), WFlags::default());
            }
            1 => {
                // zero-length buffer
                let inl = rng.gen_range(0..=l.min(9));
                ev_write(t, &mut w, kind, &data[..inl], 0, WFlags::default());
            }
            2 if w.has_direct() => {
                let amt = rng.gen_range(0..=l.min(1 + l / 2));
                ev_direct(t, &mut w, amt);
                left -= amt as u64;
            }
            3 if w.has_direct() => {
                // overshooting direct write
                ev_direct(t, &mut w, l + 1);
            }
            4 => {
                // overshoot by one byte
                if left < 70000 {
                    let over = l + 1 + if rng.gen_bool(0.3) { rng.gen_range(0..6) } else { 0 };
                    let outl = [0, 1, l.saturating_sub(1), l, l + 1, l + 5, l / 2][rng.gen_range(0..7)];
                    ev_write(t, &mut w, kind, &data[..over], outl, WFlags::default());
                    t.class("w:overshoot");
                }
            }
            5 => {
                // exactly the rest, buffer one short / exact / one more
                let outl = (l as i64 + rng.gen_range(-1..=1)).max(0) as usize;
                let (c, _) = ev_write(t, &mut w, kind, &data[..l], outl, WFlags::default());
                left -= c as u64;
            }
            _ => {
                let inl = if l == 0 { 0 } else { rng.gen_range(0..=l.min(1 + (style as usize % 5) * 700)) };
                let outl = match rng.gen_range(0..4) {
                    0 => rng.gen_range(0..3),
                    1 => inl,
                    2 => inl + 1,
                    _ => rng.gen_range(0..=inl + 3),
                };
                let (c, _) = ev_write(t, &mut w, kind, &data[..inl], outl, WFlags::default());
                left -= c as u64;
            }
        }
        if left == 0 && steps > 3 && rng.gen_bool(0.5) {
            break;
        }
    }
    // the caller signals the end, then tries to go on
    ev_write(t, &mut w, kind, &[], 0, WFlags::default());
    ev_write(t, &mut w, kind, &data[..1], 8, WFlags::default());
    if w.has_direct() {
        ev_direct(t, &mut w, 1);
        ev_direct(t, &mut w, 0);
    }
    ev_write(t, &mut w, kind, &[], 8, WFlags::default());
    ev_advance(t, w);
}

pub fn c04(o: &Opts, t: &mut Tracer) {
    let data = payload(70010, 4);
    let mut rng = rng_for(o.seed, 0xC04);
    let mut ns: Vec<u64> = if o.quick() {
        let mut v: Vec<u64> = (0..=300).collect();
        v.extend([1023, 1024, 1025, 4095, 4096, 10239, 10240, 10241, 65535, 65536, 69999, 70000]);
        for _ in 0..60 {
            v.push(rng.gen_range(301..70000));
        }
        v
    } else {
        (0..=70000).collect()
    };
    ns.extend([
        (1u64 << 31) - 1, 1u64 << 31, (1u64 << 32) - 1, 1u64 << 32, (1u64 << 32) + 1, 1u64 << 48, (1u64 << 48) - 1,
        1u64 << 63, u64::MAX - 1, u64::MAX,
    ]);
    for (i, &n) in ns.iter().enumerate() {
        let styles = if n <= 16 { 6 } else if o.quick() { 2 } else { 1 };
        for st in 0..styles {
            let api = APIS[(i + st as usize) % 2];
            c04_schedule(t, api, n, &mut rng, &data, st + (i as u32 % 5));
        }
    }
    // small N on every request shape: bodiless methods with a forced body, Host / Expect / Connection variations,
    // the length declared on the request or in the prepare state, reached through a redirect
    for n in [0u64, 1, 2, 7] {
        for variant in 0..36usize {
            let kind = Kind::Sized(n);
            let mut w = start_case_shape(t, "flow", kind, false, "request-shapes", false, variant);
            t.sig(format!("shape/{}/{}", n, variant));
            t.class("w:small-n-on-every-request-shape");
            ev_direct(t, &mut w, 0);
            ev_write(t, &mut w, kind, &data[..(n as usize + 1)], 64, WFlags::default());
            if variant % 2 == 0 {
                ev_write(t, &mut w, kind, &data[..n as usize], n as usize + 3, WFlags::default());
            } else {
                ev_direct(t, &mut w, n as usize);
            }
            ev_write(t, &mut w, kind, &[], 4, WFlags::default());
            ev_write(t, &mut w, kind, &data[..1], 4, WFlags::default());
            ev_direct(t, &mut w, 0);
        }
    }
    // single writes far larger than any internal step size
    let big = payload(600_000, 44);
    for (k, &(n, inl, outl)) in [(300_000u64, 400_000usize, 500_000usize), (300_000, 300_000, 290_000), (600_000, 600_000, 600_000), (262_145, 262_145, 262_144), (1 << 20, 600_000, 524_289)].iter().enumerate() {
        let kind = Kind::Sized(n);
        let mut w = start_case(t, APIS[k % 2], kind, false, "large-single-write");
        t.sig(format!("large/{}/{}/{}", n, inl, outl));
        t.class("w:larger-than-256k");
        ev_write(t, &mut w, kind, &big[..inl], outl, WFlags::default());
        ev_write(t, &mut w, kind, &big[..inl.min(1000)], 64, WFlags::default());
    }
    // large values: short interactions and direct writes that reach the end
    for &n in &[(1u64 << 32) + 5, u64::MAX, u64::MAX - 3, 1u64 << 63] {
        let kind = Kind::Sized(n);
        let mut w = start_case(t, "flow", kind, false, "huge");
        t.sig(format!("huge/{}", n));
        ev_write(t, &mut w, kind, &data[..100], 64, WFlags::default());
        let mut rest = n - 64;
        if usize::MAX as u64 >= rest {
            ev_direct(t, &mut w, (rest - 3) as usize);
            rest = 3;
            ev_direct(t, &mut w, 4);
            ev_write(t, &mut w, kind, &data[..4], 64, WFlags::default());
            ev_write(t, &mut w, kind, &data[..2], 1, WFlags::default());
            rest -= 1;
            ev_direct(t, &mut w, rest as usize);
            ev_write(t, &mut w, kind, &[], 0, WFlags::default());
            ev_write(t, &mut w, kind, &data[..1], 4, WFlags::default());
        }
    }
}

// ------------------------------------------------------------------------------------------ C18

pub fn c18(o: &Opts, t: &mut Tracer) {
    let top = 3 * 10248 + 64;
    let data = payload(1 << 22, 18);
    let mut rng = rng_for(o.seed, 0xC18);
    let mut ns: Vec<usize> = if o.quick() {
        let mut v: Vec<usize> = (0..=600).collect();
        for k in 1..=3 {
            v.extend((10248 * k - 40)..=(10248 * k + 40));
        }
        v.extend([4095usize, 4096, 4097, 4103, 4104, 4105, 65535 + 8, 65536 + 8, 65536 + 9]);
        v
    } else {
        (0..=top).collect()
    };
    for _ in 0..(if o.quick() { 80 } else { 1500 }) {
        ns.push(rng.gen_range(top..(1 << 22)));
    }
    ns.sort();
    ns.dedup();
    // the advertised maximum as a function of n, queried in ascending order on one writer
    for (kind, label) in [(Kind::Chunked, "chunked"), (Kind::Sized(1 << 40), "sized")] {
        let mut w = start_case(t, "flow", kind, false, "mx-sweep");
        t.sig(format!("sweep/{}", label));
        for &n in &ns {
            ev_max(t, &mut w, kind, n);
        }
        // and a few out-of-order queries
        for _ in 0..50 {
            let n = ns[rng.gen_range(0..ns.len())];
            ev_max(t, &mut w, kind, n);
        }
    }
    // buffer lengths up to the largest a slice can have: the query must answer (no overflow), stay <= n and monotone
    for (kind, label) in [(Kind::Chunked, "chunked"), (Kind::Sized(1 << 40), "sized"), (Kind::Sized(0), "sized-empty")] {
        let mut w = start_case(t, "flow", kind, false, "mx-huge");
        t.sig(format!("sweep-huge/{}", label));
        let mut prev: Option<(usize, usize)> = None;
        let mut huge: Vec<usize> = vec![1 << 31, (1 << 32) - 1, 1 << 32, (1usize << 32) + 10247, 1 << 40, usize::MAX / 2, usize::MAX - 20000];
        huge.extend((0..=10250).step_by(1025).map(|k| usize::MAX - 10250 + k));
        huge.extend([usize::MAX - 10248, usize::MAX - 10247, usize::MAX - 8, usize::MAX - 1, usize::MAX]);
        huge.sort();
        for n in huge {
            match w.max_input(n) {
                None => {
                    t.ev(json!({"ev":"panic","during":format!("calculate_max_input for a buffer length within {} of usize::MAX", usize::MAX - n)}));
                    break;
                }
                Some(m) => {
                    let mono = prev.map(|(pn, pm)| pn > n || pm <= m).unwrap_or(true);
                    t.ev(json!({"ev":"mxb","n":limbs(n as u64),"m":limbs(m as u64),"chunked": kind == Kind::Chunked,"mono":mono}));
                    prev = Some((n, m));
                }
            }
        }
        t.class("mx:huge");
    }
    // a length-delimited body of length 0 is still length-delimited: the advertised maximum is n
    for n in [0usize, 1, 5, 64, 100000] {
        let kind = Kind::Sized(0);
        let mut w = start_case(t, "flow", kind, false, "mx-sized-empty");
        t.sig(format!("mx-empty/{}", n));
        ev_max(t, &mut w, kind, n);
        ev_write(t, &mut w, kind, &[], 16, WFlags::default());
        ev_max(t, &mut w, kind, n);
    }
    // the write the advertised maximum is meant to bound
    for &n in &ns {
        for (kind, label) in [(Kind::Chunked, "chunked"), (Kind::Sized(1 << 40), "sized")] {
            if label == "sized" && n % 7 != 0 && n > 600 {
                continue;
            }
            let mut w = start_case(t, "flow", kind, n % 2 == 0, "mx-write");
            t.sig(format!("mxw/{}/{}", label, n));
            if n % 3 == 1 {
                // the bound holds for a writer with a past as well: earlier writes into too little or barely enough room
                ev_write(t, &mut w, kind, &data[..3], 5 + n % 4, WFlags::default());
                ev_write(t, &mut w, kind, &data[..2], (n % 5) * 3, WFlags::default());
                t.class("mx:after-earlier-writes");
            }
            let m = ev_max(t, &mut w, kind, n);
            if m <= data.len() {
                ev_write(t, &mut w, kind, &data[..m], n, WFlags { maxprobe: true, ..Default::default() });
            }
        }
    }
}

// ------------------------------------------------------------------------------------------ C19

pub fn c19(o: &Opts, t: &mut Tracer) {
    let data = payload(60000, 19);
    let kind = Kind::Chunked;
    let mut outs: Vec<usize> = if o.quick() {
        let mut v: Vec<usize> = (6..=300).collect();
        v.extend(4080..=4120);
        v.extend(10230..=10270);
        v.extend([20480usize, 20496, 20497, 20500]);
        v
    } else {
        (6..=11000).collect()
    };
    outs.extend([20495usize, 20496, 20497, 30744, 30745]);
    outs.sort();
    outs.dedup();
    for (i, &outl) in outs.iter().enumerate() {
        let api = APIS[i % 2];
        // M(out) from a flow (the single-call API has no such query)
        let m = Wut::new_v("flow", kind, false, i % 4 == 3).max_input(outl).unwrap_or(0);
        let mut ins = vec![m, 1, m.saturating_sub(1), m + 1, 2 * m, outl, outl + 1, outl.saturating_sub(5), outl.saturating_sub(4), 3 * 10240 + 1];
        ins.retain(|&x| x >= 1 && x <= data.len());
        let mut seen = std::collections::HashSet::new();
        for inl in ins {
            if !seen.insert(inl) {
                continue;
            }
            let mut w = start_case(t, api, kind, (i + inl) % 3 == 1, "probe");
            t.sig(format!("probe/{}/{}", outl, inl));
            ev_write(t, &mut w, kind, &data[..inl], outl, WFlags { probe: true, m, maxprobe: false });
        }
    }
    // sized bodies: one byte of room is progress
    for outl in 1..=40usize {
        for inl in [1usize, 2, outl, outl + 1, 500] {
            let kind = Kind::Sized(1000);
            let mut w = start_case(t, APIS[outl % 2], kind, false, "sized-probe");
            t.sig(format!("sprobe/{}/{}", outl, inl));
            ev_write(t, &mut w, kind, &data[..inl], outl, WFlags::default());
        }
    }
    // ... also after part of the body went to the transport directly (reported direct writes)
    for (j, outl) in [1usize, 2, 7, 64].iter().enumerate() {
        for amt in [0usize, 1, 100] {
            let kind = Kind::Sized(1000);
            let mut w = start_case(t, "flow", kind, false, "sized-after-direct-write");
            t.sig(format!("sdirect/{}/{}", outl, amt));
            t.class("w:write-after-direct-write");
            if j % 2 == 0 {
                ev_write(t, &mut w, kind, &data[..3], *outl, WFlags::default());
            }
            ev_direct(t, &mut w, amt);
            ev_write(t, &mut w, kind, &data[..300], *outl, WFlags::default());
            ev_direct(t, &mut w, amt);
            ev_write(t, &mut w, kind, &data[..1], *outl, WFlags::default());
        }
    }
    // progress depends on the (input, room) pair only, not on what the writer emitted before:
    // large buffers first, then small ones, on the same writer
    let firsts: Vec<usize> = if o.quick() { vec![21, 22, 64, 300, 1000, 5000, 10246, 20496] } else { (6..400).step_by(7).chain([1000usize, 4101, 4102, 5000, 10246, 10247, 20496, 30000]).collect() };
    for (j, &first) in firsts.iter().enumerate() {
        for small in 6..=13usize {
            let mut w = start_case(t, APIS[(j + small) % 2], kind, (j + small) % 3 == 0, "history");
            t.sig(format!("history/{}/{}", first, small));
            t.class("w:large-then-small");
            let mut off = 0;
            for &outl in &[first, small, small, first, small + 1, small, 6] {
                let (c, ok) = ev_write(t, &mut w, kind, &data[off..(off + 3 * first + 50).min(data.len())], outl, WFlags::default());
                off += c;
                if !ok {
                    break;
                }
            }
        }
    }
    // a query about one buffer length followed by a write into another: the query is read-only
    for (k, &(asked, outl)) in [(4usize, 1024usize), (20, 1024), (0, 64), (6, 7), (10, 512), (100000, 64)].iter().enumerate() {
        for kind in [Kind::Chunked, Kind::Sized(5000)] {
            let mut w = start_case(t, "flow", kind, k % 2 == 0, "query-then-other-buffer");
            t.sig(format!("qtob/{}/{}/{:?}", asked, outl, kind));
            ev_max(t, &mut w, kind, asked);
            ev_write(t, &mut w, kind, &data[..100], outl, WFlags::default());
            ev_max(t, &mut w, kind, asked);
            ev_write(t, &mut w, kind, &data[..300], outl, WFlags::default());
        }
    }
    // many writes in a row that cannot make progress (no room), then room: progress resumes
    for (k, stalls) in [7usize, 8, 9, 20, 300].iter().enumerate() {
        for kind in [Kind::Chunked, Kind::Sized(5000)] {
            let mut w = start_case(t, APIS[k % 2], kind, false, "stalls-then-room");
            t.sig(format!("stalls/{}/{:?}", stalls, kind));
            t.class("w:stalls-then-room");
            for j in 0..*stalls {
                let room = if kind == Kind::Chunked { j % 6 } else { 0 };
                ev_write(t, &mut w, kind, &data[..10], room, WFlags::default());
            }
            ev_write(t, &mut w, kind, &data[..10], 64, WFlags::default());
            ev_write(t, &mut w, kind, &data[..10], 6, WFlags::default());
        }
    }
    // one transport buffer filled by appending: the room shrinks from call to call down to less than a chunk
    for (j, &cap) in [64usize, 100, 1000, 4200, 10300, 20600].iter().enumerate() {
        for shave in 0..8usize {
            let mut w = start_case(t, APIS[(j + shave) % 2], kind, shave % 3 == 0, "append");
            t.sig(format!("append/{}/{}", cap, shave));
            let mut pos = 0;
            let mut off = 0;
            let mut first = true;
            while cap - pos >= 6 {
                // the first call leaves 6..13 bytes of room behind
                let inl = if first { cap.saturating_sub(6 + shave + 5 + 3).max(1) } else { data.len() - off };
                first = false;
                let (c, ok) = ev_write(t, &mut w, kind, &data[off..off + inl.min(data.len() - off)], cap - pos, WFlags::default());
                if !ok || c == 0 {
                    break;
                }
                off += c;
                // produced bytes = chunk framing around c bytes; recompute the room from the event's own numbers
                pos += c + format!("{:x}", c).len() + 4;
                if c > 10240 {
                    pos += (c - 1) / 10240 * 9;
                }
                if pos > cap {
                    break;
                }
            }
        }
    }
    // whole-body loops with a fixed buffer
    let body = if o.quick() { 6000 } else { 50000 };
    for (j, &outl) in [6usize, 7, 21, 22, 261, 1024, 4103, 10248].iter().enumerate() {
        for kind in [Kind::Chunked, Kind::Sized(body as u64)] {
            if kind != Kind::Chunked && outl > 22 {
                continue;
            }
            let mut w = start_case(t, APIS[j % 2], kind, j % 3 != 0, "loop");
            t.sig(format!("loop/{}/{:?}", outl, kind));
            let mut off = 0;
            let mut iters = 0;
            let cap = body + 10;
            while off < body {
                let (c, ok) = ev_write(t, &mut w, kind, &data[off..body], outl, WFlags::default());
                off += c;
                iters += 1;
                if !ok || iters > cap || (c == 0 && iters > 3) {
                    t.ev(json!({"ev":"stuck","during":"body send loop","iterations":iters,"off":off}));
                    break;
                }
            }
            ev_write(t, &mut w, kind, &[], outl, WFlags::default());
        }
    }
}
