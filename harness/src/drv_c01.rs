//! C01: for a fixed request and a fixed server byte stream every I/O schedule gives the same outcome,
//! and an exchange consumes exactly the bytes of its response message(s).
use crate::flowbox::RqCfg;
use crate::util::*;
use serde_json::{json, Value};
use ureq_proto::client::flow::{Await100Result, Flow, RecvBodyResult, RecvResponseResult, SendRequestResult};
use ureq_proto::BodyMode;

fn fnv(b: &[u8]) -> String {
    let mut h: u64 = 0xcbf29ce484222325;
    for &x in b {
        h ^= x as u64;
        h = h.wrapping_mul(0x100000001b3);
    }
    format!("{:016x}/{}", h, b.len())
}

#[derive(Clone)]
pub struct Sched {
    pub arrivals: Vec<usize>, // absolute offsets into the connection's server stream, ascending
    pub send_sizes: Vec<usize>,
    pub read_sizes: Vec<usize>,
    pub queries: u64, // seed for interleaved read-only queries (0: none)
    pub name: String,
}

pub struct Conn<'a> {
    pub stream: &'a [u8],
    pub pos: usize,
    pub ai: usize,
    pub avail: usize,
}

impl<'a> Conn<'a> {
    fn arrive(&mut self, s: &Sched) -> bool {
        if self.avail >= self.stream.len() {
            return false;
        }
        while self.ai < s.arrivals.len() && s.arrivals[self.ai] <= self.avail {
            self.ai += 1;
        }
        self.avail = if self.ai < s.arrivals.len() { s.arrivals[self.ai].min(self.stream.len()) } else { self.stream.len() };
        true
    }
    fn window(&self) -> &'a [u8] {
        &self.stream[self.pos.min(self.avail)..self.avail]
    }
}

/// The request body payload as a server would decode it from the wire. Strict: anything that is not a sequence of
/// well-formed chunks followed by exactly one terminator (and nothing after it) is reported as malformed.
fn decode_wire(wire: &[u8], chunked: bool) -> Vec<u8> {
    if !chunked {
        return wire.to_vec();
    }
    let mut out = vec![];
    let mut pos = 0;
    let mut ended = false;
    while pos < wire.len() {
        let e = match (pos..wire.len().saturating_sub(1)).find(|&i| wire[i] == b'\r' && wire[i + 1] == b'\n') {
            Some(e) => e,
            None => {
                out.extend(b"<unterminated size line>");
                return out;
            }
        };
        let n = usize::from_str_radix(std::str::from_utf8(&wire[pos..e]).unwrap_or("x").split(';').next().unwrap_or("x").trim(), 16).unwrap_or(usize::MAX);
        if n == usize::MAX {
            out.extend(b"<bad chunk size>");
            return out;
        }
        pos = e + 2;
        if n == 0 {
            // last-chunk: the empty line must follow and nothing else
            if wire.len() >= pos + 2 && &wire[pos..pos + 2] == b"\r\n" {
                pos += 2;
                ended = true;
                out.extend(b"<end>");
                if pos != wire.len() {
                    out.extend(b"<bytes after the terminator>");
                }
            } else {
                out.extend(b"<incomplete terminator>");
            }
            return out;
        }
        if pos + n + 2 > wire.len() || &wire[pos + n..pos + n + 2] != b"\r\n" {
            out.extend(b"<chunk data not followed by CRLF>");
            return out;
        }
        out.extend(&wire[pos..pos + n]);
        pos += n + 2;
    }
    if !ended {
        out.extend(b"<no terminator>");
    }
    out
}

/// Run one exchange on the connection under the schedule; returns the outcome event.
pub fn run_exchange(rq: &RqCfg, payload_bytes: &[u8], conn: &mut Conn, s: &Sched, idx: usize) -> Value {
    let start = conn.pos;
    let mut qrng = rng_for(s.queries, idx as u64);
    let q = |rng: &mut StdRng| s.queries != 0 && rng.gen_bool(0.35);
    let mut o = json!({"ev":"outcome","idx":idx,"head":"","sent":"","resp":"","body":"","stend":"","must_close":false,"consumed":0,"completed":false,"sched":s.name});
    let fail = |mut o: Value, why: &str, conn: &Conn| {
        o["why"] = json!(why);
        o["consumed"] = json!(conn.pos - start);
        o
    };
    macro_rules! g {
        ($e:expr, $why:expr) => {
            match guarded(|| $e) {
                Some(v) => v,
                None => return fail(o, concat!("panic: ", $why), conn),
            }
        };
    }
    let via = VIA_REDIRECT.with(|x| x.get()) && matches!(rq.method.as_str(), "GET" | "HEAD");
    let mut f = if via {
        match redirected_flow(rq) {
            Some(f) => f,
            None => return fail(o, "flow after a redirect could not be made", conn),
        }
    } else {
        match guarded(|| Flow::new(rq.request())) {
            Some(Ok(f)) => f,
            _ => return fail(o, "flow construction failed", conn),
        }
    };
    if rq.despite {
        g!(f.send_body_despite_method(), "despite");
    }
    let mut f = g!(f.proceed(), "Prepare::proceed");
    // ---- request head
    let mut head = vec![];
    let mut si = 0usize;
    let mut guard = 0;
    while !g!(f.can_proceed(), "can_proceed") {
        guard += 1;
        if guard > 4000 {
            return fail(o, "head never completed", conn);
        }
        let size = s.send_sizes[si % s.send_sizes.len()];
        si += 1;
        let mut out = vec![0u8; size];
        match g!(f.write(&mut out), "head write") {
            Ok(n) => head.extend(&out[..n.min(size)]),
            Err(ureq_proto::Error::OutputOverflow) => {}
            Err(_) => return fail(o, "head write failed", conn),
        }
        if q(&mut qrng) {
            let _ = g!(f.can_proceed(), "can_proceed");
        }
    }
    o["head"] = json!(fnv(&head));
    let next = match g!(f.proceed(), "SendRequest::proceed") {
        Ok(Some(n)) => n,
        _ => return fail(o, "SendRequest::proceed gave nothing", conn),
    };
    // ---- 100-continue handshake: the caller waits until the server decided or everything has arrived
    let mut body_flow = None;
    let mut recv_flow = None;
    match next {
        SendRequestResult::Await100(mut a) => {
            let mut guard = 0;
            // "giveup" schedules: the caller stops waiting at once and sends the body (the server's 100 arrives late)
            let give_up = s.name.starts_with("giveup");
            loop {
                if give_up {
                    break;
                }
                guard += 1;
                if guard > 100000 {
                    return fail(o, "await-100 loop", conn);
                }
                if !g!(a.can_keep_await_100(), "can_keep_await_100") {
                    break;
                }
                let w = conn.window();
                match g!(a.try_read_100(w), "try_read_100") {
                    Ok(n) => conn.pos += n,
                    Err(_) => return fail(o, "try_read_100 failed", conn),
                }
                if !g!(a.can_keep_await_100(), "can_keep_await_100") {
                    break;
                }
                if !conn.arrive(s) {
                    break;
                }
            }
            match g!(a.proceed(), "Await100::proceed") {
                Ok(Await100Result::SendBody(b)) => body_flow = Some(b),
                Ok(Await100Result::RecvResponse(r)) => recv_flow = Some(r),
                Err(_) => return fail(o, "Await100::proceed failed", conn),
            }
        }
        SendRequestResult::SendBody(b) => body_flow = Some(b),
        SendRequestResult::RecvResponse(r) => recv_flow = Some(r),
    }
    // ---- request body
    let mut wire = vec![];
    if let Some(mut b) = body_flow {
        let chunked = g!(b.is_chunked(), "is_chunked");
        let mut off = 0usize;
        let mut guard = 0;
        loop {
            guard += 1;
            if guard > 200000 {
                return fail(o, "body send loop", conn);
            }
            if off >= payload_bytes.len() && g!(b.can_proceed(), "can_proceed") {
                break;
            }
            if off >= payload_bytes.len() && !chunked && !payload_bytes.is_empty() {
                // a Content-Length body is finished once its N bytes are accounted for, however they were reported
                return fail(o, "Content-Length body not finished although all N bytes were written / reported", conn);
            }
            let size = s.send_sizes[si % s.send_sizes.len()];
            si += 1;
            let mut input = &payload_bytes[off..];
            if q(&mut qrng) {
                let m = g!(b.calculate_max_input(size), "calculate_max_input");
                if m > 0 && m < input.len() {
                    input = &input[..m];
                }
                let _ = g!(b.is_chunked(), "is_chunked");
            }
            let mut out = vec![0u8; size];
            if !chunked && !input.is_empty() && s.queries % 3 == 2 && guard % 2 == 0 {
                // zero-copy path: the caller puts the bytes on the wire itself and reports them
                let k = input.len().min(size.max(1));
                match g!(b.consume_direct_write(k), "consume_direct_write") {
                    Ok(()) => {
                        wire.extend(&input[..k]);
                        off += k;
                    }
                    Err(_) => return fail(o, "direct write refused", conn),
                }
                continue;
            }
            match g!(b.write(input, &mut out), "body write") {
                Ok((c, p)) => {
                    wire.extend(&out[..p.min(size)]);
                    off += c;
                }
                // a buffer too small for the smallest chunk may be answered with an overflow error instead of (0, 0),
                // like a head line that does not fit: the caller comes back with its next buffer
                Err(ureq_proto::Error::OutputOverflow) if chunked && size < 6 => {}
                Err(_) => return fail(o, "body write failed", conn),
            }
            if q(&mut qrng) {
                let _ = g!(b.can_proceed(), "can_proceed");
            }
        }
        o["sent"] = json!(fnv(&decode_wire(&wire, chunked)));
        recv_flow = match g!(b.proceed(), "SendBody::proceed") {
            Some(r) => Some(r),
            None => return fail(o, "SendBody::proceed gave nothing", conn),
        };
    } else {
        o["sent"] = json!("none");
    }
    // ---- response head
    let mut r = recv_flow.unwrap();
    let mut guard = 0;
    let resp = loop {
        guard += 1;
        if guard > 200000 {
            return fail(o, "response head loop", conn);
        }
        let w = conn.window();
        match g!(r.try_response(w), "try_response") {
            Ok((n, Some(resp))) => {
                conn.pos += n;
                break resp;
            }
            Ok((n, None)) => {
                conn.pos += n;
                if n == 0 && !conn.arrive(s) {
                    return fail(o, "response head never complete", conn);
                }
            }
            Err(e) => return fail(o, &format!("try_response failed: {:?}", e), conn),
        }
        if q(&mut qrng) {
            let _ = g!(r.can_proceed(), "can_proceed");
        }
    };
    let mut hv: Vec<String> = resp.headers().iter().map(|(k, v)| format!("{}={}", k.as_str(), hex(v.as_bytes()))).collect();
    hv.sort();
    o["resp"] = json!(fnv(format!("{} {:?} {}", resp.status().as_u16(), resp.version(), hv.join("&")).as_bytes()));
    let next = match g!(r.proceed(), "RecvResponse::proceed") {
        Some(n) => n,
        None => return fail(o, "RecvResponse::proceed gave nothing", conn),
    };
    // ---- response body
    let mut body = vec![];
    let mut path = String::new();
    let mut after_body = None;
    match next {
        RecvResponseResult::RecvBody(mut b) => {
            let mode = g!(b.body_mode(), "body_mode");
            let close = matches!(mode, BodyMode::CloseDelimited);
            let mut ri = 0usize;
            let mut idle = 0usize;
            let mut guard = 0;
            loop {
                guard += 1;
                if guard > 2_000_000 {
                    return fail(o, "body read loop", conn);
                }
                let done = g!(b.can_proceed(), "can_proceed");
                if done && !close {
                    break;
                }
                if close && conn.avail >= conn.stream.len() && conn.pos >= conn.stream.len() {
                    break;
                }
                let size = s.read_sizes[ri % s.read_sizes.len()];
                ri += 1;
                let mut out = vec![0u8; size];
                let w = conn.window();
                match g!(b.read(w, &mut out), "body read") {
                    Ok((c, p)) => {
                        body.extend(&out[..p.min(size)]);
                        conn.pos += c;
                        if c + p == 0 {
                            idle += 1;
                            if idle > s.read_sizes.len() {
                                if !conn.arrive(s) {
                                    return fail(o, "body never complete", conn);
                                }
                                idle = 0;
                            }
                        } else {
                            idle = 0;
                        }
                    }
                    Err(e) => return fail(o, &format!("body read failed: {:?}", e), conn),
                }
                if q(&mut qrng) {
                    let _ = g!(b.is_on_chunk_boundary(), "is_on_chunk_boundary");
                    let _ = g!(b.body_mode(), "body_mode");
                }
            }
            path.push_str("RecvBody>");
            after_body = Some(match g!(b.proceed(), "RecvBody::proceed") {
                Some(x) => x,
                None => return fail(o, "RecvBody::proceed gave nothing", conn),
            });
        }
        RecvResponseResult::Redirect(rd) => {
            after_body = Some(RecvBodyResult::Redirect(rd));
        }
        RecvResponseResult::Cleanup(c) => {
            after_body = Some(RecvBodyResult::Cleanup(c));
        }
    }
    o["body"] = json!(fnv(&body));
    let cleanup = match after_body.unwrap() {
        RecvBodyResult::Redirect(rd) => {
            path.push_str("Redirect>");
            let mc = g!(rd.must_close_connection(), "must_close_connection");
            o["redirect_must_close"] = json!(mc);
            g!(rd.proceed(), "Redirect::proceed")
        }
        RecvBodyResult::Cleanup(c) => c,
    };
    path.push_str("Cleanup");
    o["stend"] = json!(path);
    o["must_close"] = json!(g!(cleanup.must_close_connection(), "must_close_connection"));
    o["consumed"] = json!(conn.pos - start);
    o["completed"] = json!(true);
    o
}

thread_local! {
    /// this many further field lines in every response head rendered (a head of 30 .. 128 fields is an ordinary head)
    pub static MANY_FIELDS: std::cell::Cell<usize> = std::cell::Cell::new(0);
    /// the exchange runs on a flow produced by following a redirect (the original request carried credentials that the redirect suppresses)
    pub static VIA_REDIRECT: std::cell::Cell<bool> = std::cell::Cell::new(false);
}

/// the flow of `rq` as the second request of a redirect chain: same method, URI and headers, plus a Cookie and an Authorization
/// on the original request that the redirect suppresses
fn redirected_flow(rq: &RqCfg) -> Option<Flow<(), ureq_proto::client::flow::state::Prepare>> {
    let base = rq.request();
    let mut b = ureq_proto::http::Request::builder().method(base.method().clone()).uri(base.uri().clone()).version(base.version())
        .header("cookie", "sid=1").header("authorization", "Basic abc");
    for (k, v) in base.headers() {
        b = b.header(k, v);
    }
    b = b.header("cookie", "second=2");
    let f0 = guarded(|| Flow::new(b.body(()).unwrap()))?.ok()?;
    let mut rr = crate::fx::to_recv_response(f0)?;
    let (_, r) = guarded(|| rr.try_response(b"HTTP/1.1 307 Temporary Redirect\r\nLocation: /res/item?id=7\r\nContent-Length: 0\r\n\r\n"))?.ok()?;
    r?;
    match guarded(|| rr.proceed())?? {
        ureq_proto::client::flow::RecvResponseResult::Redirect(mut red) => guarded(|| red.as_new_flow(ureq_proto::client::flow::RedirectAuthHeaders::Never))?.ok()?,
        _ => None,
    }
}

pub struct RespSpec {
    pub interim100: bool,
    pub status: u16,
    pub ver10: bool,
    pub framing: &'static str, // cl | chunked | close | none
    pub body: Vec<u8>,
    pub conn_close: bool,
}

/// bytes of one response message, and the ranges of arrival offsets (relative) that C05 owns
/// (inside a 3xx head after a complete Location line)
pub fn render_response(r: &RespSpec, rng: &mut StdRng) -> (Vec<u8>, Vec<(usize, usize)>) {
    let mut b = vec![];
    let mut forbidden = vec![];
    if r.interim100 {
        b.extend(b"HTTP/1.1 100 Continue\r\n\r\n");
    }
    let hs = b.len();
    b.extend(format!("HTTP/1.{} {} Reason\r\n", if r.ver10 { 0 } else { 1 }, r.status).as_bytes());
    b.extend(b"Server: verif\r\n");
    for k in 0..MANY_FIELDS.with(|x| x.get()) {
        b.extend(format!("X-F-{}: value-{}\r\n", k, k).as_bytes());
    }
    match r.framing {
        "cl" => b.extend(format!("Content-Length: {}\r\n", r.body.len()).as_bytes()),
        // (a coding list ending in chunked is the chunked framing as well)
        "chunked" => {
            if r.body.len() % 5 == 2 {
                // a length left behind by whoever produced the body before an intermediary re-framed it: the chunked coding decides
                b.extend(b"Content-Length: 3\r\n");
            }
            b.extend(if r.body.len() % 3 == 1 { &b"Transfer-Encoding: gzip, chunked\r\n"[..] } else { &b"Transfer-Encoding: chunked\r\n"[..] })
        }
        _ => {}
    }
    if r.conn_close {
        b.extend(b"Connection: close\r\n");
    }
    let mut loc_end = None;
    if (300..400).contains(&r.status) && r.status != 304 {
        b.extend(b"Location: /elsewhere\r\n");
        loc_end = Some(b.len());
    } else if r.status == 201 || (r.status == 200 && r.body.len() % 2 == 1) {
        // a Location field on a response that is no redirect (201 Created): cuts after it are ordinary cuts
        b.extend(b"Location: /created/item/17\r\nX-After: 1\r\n");
    }
    b.extend(b"\r\n");
    if let Some(le) = loc_end {
        forbidden.push((le, b.len() - 1));
    }
    let _ = hs;
    match r.framing {
        "chunked" => {
            let mut off = 0;
            while off < r.body.len() {
                let n = rng.gen_range(1..=(r.body.len() - off).min(700));
                // size lines of every length up to the decoder's documented 20 bytes (zero padding, extensions)
                let hex = format!("{:x}", n);
                let line = match rng.gen_range(0..8) {
                    0 | 1 => format!("{};e=1", hex),
                    2 => format!("{}{}", "0".repeat(19 - hex.len()), hex),
                    3 => format!("{};{}", hex, "x".repeat(20 - hex.len() - 1)),
                    4 => format!("{};ext={}", hex, "a".repeat(19 - hex.len() - 5)),
                    5 => format!("{}{}", "0".repeat(18 - hex.len()), hex),
                    _ => hex,
                };
                b.extend(format!("{}\r\n", line).as_bytes());
                b.extend(&r.body[off..off + n]);
                b.extend(b"\r\n");
                off += n;
            }
            b.extend(b"0\r\n");
            if rng.gen_bool(0.4) {
                b.extend(b"trailer: x\r\n");
            }
            b.extend(b"\r\n");
        }
        "none" => {}
        _ => b.extend(&r.body),
    }
    (b, forbidden)
}

fn no_body_status(method: &str, status: u16) -> bool {
    method == "HEAD" || status == 204 || status == 304 || (100..200).contains(&status)
}

pub fn c01(o: &Opts, t: &mut Tracer) -> Value {
    let mut rng = rng_for(o.seed, 0xC01);
    let ncases = if o.quick() { 120 } else { 6000 };
    let mut runs = 0u64;
    let mut logging_available = false;
    for ci in 0..ncases {
        let method = ["GET", "HEAD", "POST", "PUT", "GET", "POST"][ci % 6];
        let body_m = matches!(method, "POST" | "PUT");
        let ver10 = method != "PUT" && ci % 5 == 0;
        let framing = if body_m { ["default", "cl", "chunked"][(ci / 2) % 3] } else { "default" };
        let payload_len = if body_m { [0usize, 5, 3000, 11000][(ci / 3) % 4] } else { 0 };
        let pl = payload(payload_len, ci as u64);
        let expect = body_m && ci % 4 == 1;
        let mut rq = RqCfg { method: method.into(), ver10, expect, connclose: ci % 17 == 0, despite: false,
                             framing: match framing { "cl" => "cl2".into(), "chunked" => "chunked".into(), _ => "default".into() }, conn_other: None, expect_extra: false };
        // the log sink formats every byte that passes: on for a quarter of the cases, off for the rest (set in main.rs)
        if log::max_level() != log::LevelFilter::Off || logging_available {
            logging_available = true;
            log::set_max_level(if ci % 4 == 0 { log::LevelFilter::Trace } else { log::LevelFilter::Off });
        }
        MANY_FIELDS.with(|x| x.set(if ci % 8 == 5 { [40usize, 100, 33, 120][(ci / 8) % 4] } else { 0 }));
        if ci % 8 == 5 {
            t.class("c01:response-with-many-fields");
        }
        VIA_REDIRECT.with(|x| x.set(ci % 12 == 4 || ci % 12 == 1));
        if (ci % 12 == 4 || ci % 12 == 1) && !body_m {
            t.class("c01:flow-made-by-a-redirect");
        }
        // header names with several values each on the request
        crate::flowbox::REPEATED_HEADERS.with(|x| x.set(ci % 7 == 3));
        if ci % 7 == 3 {
            t.class("c01:repeated-header-names");
        }
        // a sized request body needs its real length
        let cl_text = payload_len.to_string();
        let nresp = 1 + ci % 3;
        let mut stream = vec![];
        let mut msglens = vec![];
        let mut forbidden: Vec<(usize, usize)> = vec![];
        let mut first_interim = true;
        for k in 0..nresp {
            let last = k + 1 == nresp;
            let status = [200u16, 200, 404, 204, 304, 302, 500, 201, 205, 206, 203, 307][rng.gen_range(0..12)];
            let nb = no_body_status(method, status);
            // a redirect without a framing header has no body (C06): no close-delimited 3xx bodies
            let redirect = (300..400).contains(&status);
            let fr = if nb { ["none", "cl"][rng.gen_range(0..2)] } else if last && !redirect && rng.gen_bool(0.25) { "close" } else { ["cl", "chunked"][rng.gen_range(0..2)] };
            let blen = if nb && fr == "cl" { 0 } else { [0usize, 1, 7, 300, 5000][rng.gen_range(0..5)] };
            // now and then a response far larger than any window the library could have a notion of
            let blen = if ci % 9 == 4 && k == 0 && !(nb && fr == "cl") { [100_000usize, 70_000, 140_000][(ci / 9) % 3] } else { blen };
            if blen >= 70_000 && !nb && fr != "none" {
                t.class("c01:response-over-64k-in-one-window");
            }
            let rs = RespSpec { interim100: expect && rng.gen_bool(0.6), status, ver10: fr == "close" && rng.gen_bool(0.5), framing: fr,
                                body: if fr == "none" || nb { vec![] } else { payload(blen, (ci * 7 + k) as u64) }, conn_close: rng.gen_bool(0.1) };
            // (give-up schedules need a server that sends its 100 in every exchange of the connection)
            first_interim = first_interim && rs.interim100;
            // HEAD etc. with a Content-Length header but no body bytes
            let (bytes, forb) = render_response(&rs, &mut rng);
            for (a, b) in forb {
                forbidden.push((stream.len() + a, stream.len() + b));
            }
            msglens.push(bytes.len());
            stream.extend(bytes);
        }
        // the real Content-Length for sized request bodies
        let rq_req = |rq: &RqCfg| rq.clone();
        if framing == "cl" {
            rq.framing = "default".into();
        }
        let rq_final = rq_req(&rq);
        let total = stream.len();
        t.case(json!({"ev":"case","comp":"outcome","msglens":msglens,"rq":rq_final.json(),"payload":payload_len,"stream_len":total,"nresp":nresp,"cl":cl_text}));
        t.sig(format!("c01/{}/{}/{}/{}/{}/{}", method, ver10, framing, expect, nresp, payload_len));
        // schedules: the reference first
        let big = vec![1usize << 16];
        let mut scheds: Vec<Sched> = vec![Sched { arrivals: vec![], send_sizes: big.clone(), read_sizes: big.clone(), queries: 0, name: "reference".into() }];
        let allowed = |p: usize| p > 0 && p < total && !forbidden.iter().any(|&(a, b)| p >= a && p <= b);
        let reqline = rq_final.reqline_len();
        let send_opts: Vec<Vec<usize>> = vec![vec![reqline, 1 << 16], vec![reqline - 1, 64, 1 << 16], vec![1, 6, 7, 11, 64, 4096], vec![6, 1 << 16], vec![7, 300], vec![11, 64, 1 << 14],
                                              // buffers smaller than the chunked terminator (and than any head line) in the rotation
                                              vec![3, 1 << 12, 2, 64, 4, 300], vec![4, 2, 3, 1 << 16]];
        let read_opts: Vec<Vec<usize>> = vec![vec![0, 1 << 16], vec![1], vec![2, 0, 3], vec![3, 1 << 12], vec![1 << 16]];
        let nsingle = if o.quick() { 24 } else { 60 };
        for k in 0..nsingle {
            let p = if k < 8 { 1 + k } else if k < 16 { total.saturating_sub(k - 7) } else { rng.gen_range(1..total.max(2)) };
            if allowed(p) {
                scheds.push(Sched { arrivals: vec![p], send_sizes: send_opts[k % send_opts.len()].clone(), read_sizes: read_opts[k % read_opts.len()].clone(), queries: (k % 2) as u64 * (k as u64 + 1), name: format!("single-cut@{}", p) });
            }
        }
        for k in 0..(if o.quick() { 14 } else { 50 }) {
            let mut a = rng.gen_range(1..total.max(2));
            let mut b = rng.gen_range(1..total.max(2));
            if a > b {
                std::mem::swap(&mut a, &mut b);
            }
            if allowed(a) && allowed(b) {
                scheds.push(Sched { arrivals: vec![a, b], send_sizes: send_opts[(k + 1) % send_opts.len()].clone(), read_sizes: read_opts[(k + 2) % read_opts.len()].clone(), queries: k as u64 + 100, name: format!("double-cut@{},{}", a, b) });
            }
        }
        if total < 40000 {
            let ones: Vec<usize> = (1..total).filter(|&p| allowed(p)).collect();
            scheds.push(Sched { arrivals: ones.clone(), send_sizes: vec![1, 6, 64, 1 << 16], read_sizes: vec![1 << 16], queries: 7, name: "one-byte-arrivals".into() });
            if total < 3000 {
                scheds.push(Sched { arrivals: ones, send_sizes: vec![7, 1 << 16], read_sizes: vec![1, 0, 2], queries: 0, name: "one-byte-arrivals+tiny-reads".into() });
            }
        }
        for k in 0..(if o.quick() { 6 } else { 30 }) {
            let n = rng.gen_range(1..9);
            let mut arr: Vec<usize> = (0..n).map(|_| rng.gen_range(1..total.max(2))).filter(|&p| allowed(p)).collect();
            arr.sort();
            arr.dedup();
            let ss: Vec<usize> = (0..3).map(|_| [1usize, 5, 6, 7, 11, 20, 21, 64, 1024, 1 << 16, 2, 3, 4][rng.gen_range(0..13)]).chain(std::iter::once(1 << 14)).collect();
            let rs: Vec<usize> = (0..3).map(|_| [0usize, 1, 2, 3, 100, 1 << 16][rng.gen_range(0..6)]).chain(std::iter::once(512)).collect();
            scheds.push(Sched { arrivals: arr, send_sizes: ss, read_sizes: rs, queries: 1000 + k as u64, name: format!("random-{}", k) });
        }
        if expect && first_interim {
            // the server does send its 100 Continue, but the caller has stopped waiting: same outcome, the 100 is skipped
            for (k, p) in [25usize, 26, 32, 37, 24, 12, 40, 60].iter().enumerate() {
                if allowed(*p) {
                    scheds.push(Sched { arrivals: vec![*p], send_sizes: send_opts[k % send_opts.len()].clone(), read_sizes: read_opts[k % read_opts.len()].clone(), queries: k as u64, name: format!("giveup-cut@{}", p) });
                }
            }
            scheds.push(Sched { arrivals: vec![], send_sizes: big.clone(), read_sizes: big.clone(), queries: 0, name: "giveup-all-at-once".into() });
            if total < 3000 {
                let ones: Vec<usize> = (1..total).filter(|&p| allowed(p)).collect();
                scheds.push(Sched { arrivals: ones, send_sizes: vec![64, 1 << 16], read_sizes: vec![1 << 16], queries: 3, name: "giveup-one-byte-arrivals".into() });
            }
            t.class("c01:gave-up-waiting");
        }
        // send buffers aligned with the line structure of the request head: everything up to the last header
        // line, then room for that line plus 0 / 1 / 2 bytes (the final empty line does or does not fit)
        {
            let mut twin = rq_final.clone();
            if framing == "cl" {
                twin.framing = format!("cl:{}", cl_text);
            }
            if let Some(Ok(f)) = guarded(|| Flow::new(twin.request())) {
                let mut f = f.proceed();
                let mut buf = vec![0u8; 1 << 16];
                if let Some(Ok(n)) = guarded(|| f.write(&mut buf)) {
                    let lens = crate::drv_req::lex_head(&buf[..n]).lens;
                    if lens.len() >= 3 {
                        let last = lens[lens.len() - 2];
                        let before: usize = lens[..lens.len() - 2].iter().sum();
                        let maxline = lens.iter().copied().max().unwrap_or(8);
                        for d in 0..3usize {
                            scheds.push(Sched { arrivals: vec![], send_sizes: vec![before, last + d, 1 << 16], read_sizes: big.clone(), queries: 0, name: format!("head-aligned+{}", d) });
                            // a constant buffer must at least hold the longest line plus the final empty line
                            scheds.push(Sched { arrivals: vec![], send_sizes: vec![maxline + 2 + d], read_sizes: big.clone(), queries: d as u64, name: format!("const-send-{}", maxline + 2 + d) });
                        }
                        for k in [maxline, maxline + 1, maxline + 2, maxline + 3, n - 2, n - 1] {
                            scheds.push(Sched { arrivals: vec![], send_sizes: vec![k, 1 << 16], read_sizes: big.clone(), queries: 0, name: format!("send-{}-then-big", k) });
                        }
                    }
                }
            }
        }
        if total > 60_000 {
            // a body of 100 kB is not read byte by byte: tiny read buffers are covered by the small streams
            for s in scheds.iter_mut() {
                for r in s.read_sizes.iter_mut() {
                    if *r < 512 {
                        *r += 4096;
                    }
                }
            }
        }
        for s in &scheds {
            runs += 1;
            t.ev(json!({"ev":"run","sched":s.name}));
            let mut conn = Conn { stream: &stream, pos: 0, ai: 0, avail: 0 };
            conn.avail = if s.arrivals.is_empty() { total } else { s.arrivals[0].min(total) };
            for idx in 1..=nresp {
                let mut rqx = rq_final.clone();
                let out = if framing == "cl" {
                    // Content-Length request: patch the header through a wrapper request configuration
                    rqx.framing = format!("cl:{}", cl_text);
                    run_exchange(&rqx, &pl, &mut conn, s, idx)
                } else {
                    run_exchange(&rqx, &pl, &mut conn, s, idx)
                };
                let completed = out["completed"] == json!(true);
                let must_close = out["must_close"] == json!(true);
                t.ev(out);
                if !completed || must_close {
                    break;
                }
            }
        }
    }
    crate::flowbox::REPEATED_HEADERS.with(|x| x.set(false));
    MANY_FIELDS.with(|x| x.set(0));
    VIA_REDIRECT.with(|x| x.set(false));
    if logging_available {
        log::set_max_level(log::LevelFilter::Trace);
    }
    json!({"runs": runs})
}
