//! Drivers for the response-body reader: C07 (chunked), C08 (length / close delimited).
use crate::util::*;
use serde_json::{json, Value};
use ureq_proto::client::call::state::RecvBody as CRecvBody;
use ureq_proto::client::call::Call;
use ureq_proto::client::flow::state::RecvBody;
use ureq_proto::client::flow::{Flow, RecvBodyResult, RecvResponseResult, SendRequestResult};
use ureq_proto::http::Request;

pub enum Rut {
    Flow(Flow<(), RecvBody>),
    Call(Call<CRecvBody, ()>),
}

static APPROACH: std::sync::atomic::AtomicUsize = std::sync::atomic::AtomicUsize::new(0);

/// Drive an exchange up to the body state with the given response head. The way the receive state is
/// reached rotates: request method and version, a request body, an Expect handshake whose 100 arrives late.
pub fn recv_body(api: &str, head: &[u8]) -> Option<Rut> {
    // a panic of the harness's own expectations on the way to the body state (e.g. the head was not accepted)
    // must not crash the run: it is reported by the callers as "body state not reached"
    match guarded(|| recv_body_inner(api, head)) {
        Some(r) => r,
        None => None,
    }
}

fn recv_body_inner(api: &str, head: &[u8]) -> Option<Rut> {
    let v = APPROACH.fetch_add(1, std::sync::atomic::Ordering::Relaxed);
    if head.starts_with(b"HTTP/1.1 407") {
        // a proxy refusing a CONNECT: only 2xx replies to CONNECT are without body
        let f = Flow::new(Request::builder().method("CONNECT").uri("http://h.test:443/").body(()).unwrap()).unwrap();
        let mut f = crate::fx::to_recv_response(f).expect("harness: reach RecvResponse");
        let (n, r) = f.try_response(head).unwrap();
        assert!(r.is_some() && n == head.len(), "harness: head not accepted");
        return match f.proceed().unwrap() {
            RecvResponseResult::RecvBody(f) => Some(Rut::Flow(f)),
            _ => None,
        };
    }
    if api == "call" && v % 4 == 2 {
        // an interim response other than 100 precedes the head on the same receiver
        let mut c = crate::fx::call_recv_response(["GET", "POST"][(v / 4) % 2]);
        let hints: &[u8] = b"HTTP/1.1 103 Early Hints\r\nLink: </style.css>; rel=preload\r\n\r\n";
        let (n, r) = c.try_response(hints).unwrap().unwrap();
        assert!(n == hints.len() && r.status() == 103, "harness: interim response");
        let (n, _) = c.try_response(head).unwrap().unwrap();
        assert!(n == head.len());
        return c.into_body().unwrap().map(Rut::Call);
    }
    if api == "flow" && v % 3 == 1 {
        let method = ["POST", "PUT", "DELETE", "OPTIONS", "PATCH"][(v / 3) % 5];
        let body_m = matches!(method, "POST" | "PUT" | "PATCH");
        let mut b = Request::builder().method(method).uri("http://h.test/data");
        let expect = body_m && (v / 15) % 2 == 0;
        if expect {
            b = b.header("expect", "100-continue");
        }
        if method == "POST" && (v / 30) % 2 == 0 {
            b = b.version(ureq_proto::http::Version::HTTP_10);
        }
        let f = Flow::new(b.body(()).unwrap()).unwrap();
        let mut f = crate::fx::to_recv_response(f).expect("harness: reach RecvResponse");
        if expect && (v / 60) % 2 == 1 {
            // the late interim response and the head arrive in one window: skipped and the caller asked to come back with the
            // rest, or skipped and the head answered by the same call - either way every byte is accounted for
            let mut w = b"HTTP/1.1 100 Continue\r\n\r\n".to_vec();
            w.extend(head);
            w.extend(b"0123");
            let (n, r) = f.try_response(&w).unwrap();
            if r.is_none() {
                assert!(n == 25, "harness: late 100 not skipped exactly");
                let (n2, r2) = f.try_response(&w[25..]).unwrap();
                assert!(r2.is_some() && n2 == head.len(), "harness: head not accepted");
            } else {
                assert!(n == 25 + head.len(), "harness: late 100 and head not consumed exactly");
            }
            return match f.proceed().unwrap() {
                RecvResponseResult::RecvBody(f) => Some(Rut::Flow(f)),
                _ => None,
            };
        } else if expect {
            // the interim response arrives late and is skipped
            let (n, r) = f.try_response(b"HTTP/1.1 100 Continue\r\n\r\n").unwrap();
            assert!(n == 25 && r.is_none(), "harness: late 100 not skipped");
        } else if (v / 3) % 2 == 0 {
            // an interim response other than 100 is handed to the caller; the final head follows
            let interim: &[u8] = b"HTTP/1.1 102 Processing\r\n\r\n";
            let (n, r) = f.try_response(interim).unwrap();
            assert!(n == interim.len() && r.is_some(), "harness: interim response");
        }
        let (n, r) = f.try_response(head).unwrap();
        assert!(r.is_some() && n == head.len(), "harness: head not accepted");
        return match f.proceed().unwrap() {
            RecvResponseResult::RecvBody(f) => Some(Rut::Flow(f)),
            _ => None,
        };
    }
    if api == "flow" && v % 7 == 5 && !head.starts_with(b"HTTP/1.1 100") && !head.starts_with(b"\r\n") {
        // the response arrives while the request still awaits 100-continue: the request body is never sent, the response
        // body is read like any other
        let mut f = crate::fx::flow_recv_response_after_refusal(["POST", "PUT"][(v / 7) % 2], head).expect("harness: reach RecvResponse after a refusal");
        let (n, r) = f.try_response(head).unwrap();
        assert!(r.is_some() && n == head.len(), "harness: head not accepted");
        return match f.proceed().unwrap() {
            RecvResponseResult::RecvBody(f) => Some(Rut::Flow(f)),
            _ => None,
        };
    }
    let req = Request::get("http://h.test/data").body(()).unwrap();
    let mut buf = vec![0u8; 1024];
    // the head arrives line by line (not for 3xx heads: what happens inside those after the Location line is C05's KF1)
    let status3xx = head.windows(12).take(8).any(|w| w.starts_with(b"HTTP/1.") && w[9] == b'3');
    let cuts: Vec<usize> = if v % 2 == 0 && !status3xx {
        (1..head.len().saturating_sub(2)).filter(|&i| head[i - 1] == b'\n' && i >= 12).collect()
    } else {
        vec![]
    };
    if api == "flow" {
        let mut f = Flow::new(req).unwrap().proceed();
        for _ in 0..400 {
            if f.can_proceed() {
                break;
            }
            f.write(&mut buf).unwrap();
        }
        let mut f = match f.proceed().unwrap().unwrap() {
            SendRequestResult::RecvResponse(f) => f,
            _ => panic!("harness: expected RecvResponse"),
        };
        for &c in &cuts {
            let (n, r) = f.try_response(&head[..c]).unwrap();
            assert!(r.is_none() && n == 0, "harness: incomplete head answered");
        }
        let (n, r) = f.try_response(head).unwrap();
        assert!(r.is_some() && n == head.len(), "harness: head not accepted");
        match f.proceed().unwrap() {
            RecvResponseResult::RecvBody(f) => Some(Rut::Flow(f)),
            _ => None,
        }
    } else {
        let mut c = Call::without_body(req).unwrap();
        for _ in 0..400 {
            if c.is_finished() {
                break;
            }
            c.write(&mut buf).unwrap();
        }
        let mut c = c.into_receive().unwrap();
        for &cut in &cuts {
            assert!(c.try_response(&head[..cut]).unwrap().is_none(), "harness: incomplete head answered");
        }
        let (n, _) = c.try_response(head).unwrap().unwrap();
        assert!(n == head.len());
        c.into_body().unwrap().map(Rut::Call)
    }
}

impl Rut {
    pub fn read(&mut self, input: &[u8], out: &mut [u8]) -> Option<Result<(usize, usize), ureq_proto::Error>> {
        match self {
            Rut::Flow(f) => guarded(|| f.read(input, out)),
            Rut::Call(c) => guarded(|| c.read(input, out)),
        }
    }
    pub fn ready(&self) -> bool {
        match self {
            Rut::Flow(f) => guarded(|| f.can_proceed()).unwrap_or(false),
            Rut::Call(c) => guarded(|| c.is_ended() || c.is_close_delimited()).unwrap_or(false),
        }
    }
    pub fn set_stop(&mut self, b: bool) {
        match self {
            Rut::Flow(f) => f.stop_on_chunk_boundary(b),
            Rut::Call(c) => c.stop_on_chunk_boundary(b),
        }
    }
    pub fn boundary(&self) -> bool {
        match self {
            Rut::Flow(f) => guarded(|| f.is_on_chunk_boundary()).unwrap_or(false),
            Rut::Call(c) => guarded(|| c.is_on_chunk_boundary()).unwrap_or(false),
        }
    }
    /// Flow only: proceed to Cleanup/Redirect and read the verdict.
    pub fn verdict(self) -> Option<(bool, String)> {
        match self {
            Rut::Flow(f) => match guarded(|| f.proceed())? {
                Some(RecvBodyResult::Cleanup(c)) => Some((c.must_close_connection(), "Cleanup".into())),
                Some(RecvBodyResult::Redirect(r)) => Some((r.must_close_connection(), "Redirect".into())),
                None => None,
            },
            Rut::Call(_) => None,
        }
    }
}

// ---------------------------------------------------------------------------------- codings

#[derive(Clone)]
pub struct ChunkSpec {
    pub data: Vec<u8>,
    pub zeros: usize,
    pub upper: bool,
    pub ext: Vec<u8>,
}

#[derive(Clone)]
pub struct Coding {
    pub bytes: Vec<u8>, // coding followed by the tail (bytes of a next message)
    pub l: usize,
    pub pay: Vec<(usize, usize)>,
    pub payload: Vec<u8>,
}

pub fn mk_coding(chunks: &[ChunkSpec], last_zeros: usize, last_ext: &[u8], trailers: &[&[u8]], tail: &[u8]) -> Coding {
    let mut b = vec![];
    let mut pay = vec![];
    let mut payload = vec![];
    for c in chunks {
        b.extend(std::iter::repeat(b'0').take(c.zeros));
        let h = if c.upper { format!("{:X}", c.data.len()) } else { format!("{:x}", c.data.len()) };
        b.extend(h.as_bytes());
        b.extend(&c.ext);
        b.extend(b"\r\n");
        pay.push((b.len(), c.data.len()));
        b.extend(&c.data);
        payload.extend(&c.data);
        b.extend(b"\r\n");
    }
    b.extend(std::iter::repeat(b'0').take(last_zeros + 1));
    b.extend(last_ext);
    b.extend(b"\r\n");
    for t in trailers {
        b.extend(*t);
        b.extend(b"\r\n");
    }
    b.extend(b"\r\n");
    let l = b.len();
    b.extend(tail);
    Coding { bytes: b, l, pay, payload }
}

/// self-check of the concretiser: re-lex the coding with an independent little parser
pub fn selfcheck_coding(c: &Coding) {
    let b = &c.bytes;
    let mut pos = 0;
    let mut pl: Vec<u8> = vec![];
    loop {
        let e = (pos..b.len() - 1).find(|&i| b[i] == b'\r' && b[i + 1] == b'\n').expect("harness: size line");
        let line = &b[pos..e];
        let d = line.iter().take_while(|x| x.is_ascii_hexdigit()).count();
        let n = usize::from_str_radix(std::str::from_utf8(&line[..d]).unwrap(), 16).unwrap();
        pos = e + 2;
        if n == 0 {
            break;
        }
        pl.extend(&b[pos..pos + n]);
        assert_eq!(&b[pos + n..pos + n + 2], b"\r\n", "harness: chunk crlf");
        pos += n + 2;
    }
    loop {
        let e = (pos..b.len() - 1).find(|&i| b[i] == b'\r' && b[i + 1] == b'\n').expect("harness: trailer");
        let empty = e == pos;
        pos = e + 2;
        if empty {
            break;
        }
    }
    if pos != c.l || pl != c.payload {
        eprintln!("harness self-check failed: coding generator and lexer disagree");
        std::process::exit(2);
    }
}

fn lay_json(c: &Coding) -> Value {
    json!({"L": c.l, "pay": c.pay.iter().map(|(s, n)| json!([s, n])).collect::<Vec<_>>()})
}

const CHUNK_HEAD: &[u8] = b"HTTP/1.1 200 OK\r\nTransfer-Encoding: chunked\r\n\r\n";

pub struct ReadState {
    pub pos: usize,
    pub delivered: usize,
    pub stop: bool,
}

/// One read() on a chunked / length / close body, logged as an `r` event. Returns (c, p, ok).
pub fn ev_read(t: &mut Tracer, r: &mut Rut, stream: &[u8], avail: usize, outl: usize, st: &mut ReadState, expect: &[u8]) -> (usize, usize, bool) {
    let window = &stream[st.pos.min(avail)..avail];
    let mut out = vec![0x5Au8; outl];
    let res = r.read(window, &mut out);
    let ready = r.ready();
    let boundary = r.boundary();
    match res {
        None => {
            t.ev(json!({"ev":"panic","during":"body read"}));
            (0, 0, false)
        }
        Some(Err(e)) => {
            t.class("r:err");
            t.ev(json!({"ev":"r","w":window.len(),"outl":outl,"stop":st.stop,"res":"err","err":format!("{:?}", e),"c":0,"p":0,
                        "content_ok":true,"subseq_ok":true,"ready":ready,"boundary":boundary}));
            (0, 0, false)
        }
        Some(Ok((c, p))) => {
            let pp = p.min(outl);
            let content_ok = p <= outl && st.delivered + p <= expect.len() && out[..pp] == expect[st.delivered..st.delivered + pp];
            // in-order copy of consumed input bytes
            let cc = c.min(window.len());
            let mut j = 0;
            for &x in &window[..cc] {
                if j < pp && out[j] == x {
                    j += 1;
                }
            }
            let subseq_ok = j == pp;
            if c > 0 && p == 0 {
                t.class("r:consume-only");
            }
            if c == 0 && p == 0 {
                t.class("r:nothing");
            }
            if p == outl && outl > 0 {
                t.class("r:filled-output");
            }
            t.ev(json!({"ev":"r","w":window.len(),"outl":outl,"stop":st.stop,"res":"ok","c":c,"p":p,
                        "content_ok":content_ok,"subseq_ok":subseq_ok,"ready":ready,"boundary":boundary}));
            st.pos += c;
            st.delivered += p;
            (c, p, true)
        }
    }
}

/// the chunked framing under different statuses and neighbouring fields: none of them changes how the body is read
fn chunk_head(k: u64) -> Vec<u8> {
    match k % 9 {
        1 => b"HTTP/1.1 205 Reset Content\r\nTransfer-Encoding: chunked\r\n\r\n".to_vec(),
        2 => b"HTTP/1.1 201 Created\r\nLocation: /made\r\nTransfer-Encoding: Chunked\r\n\r\n".to_vec(),
        3 => b"HTTP/1.1 404 Not Found\r\nX-Cache:\r\nTransfer-Encoding: chunked\r\n\r\n".to_vec(),
        4 => b"HTTP/1.1 206 Partial Content\r\nTransfer-Encoding: gzip, chunked\r\nContent-Length: 3\r\n\r\n".to_vec(),
        5 => b"HTTP/1.1 500 Oops\r\nConnection: close\r\nTransfer-Encoding: chunked\r\n\r\n".to_vec(),
        6 => b"\r\nHTTP/1.1 200 OK\r\nTransfer-Encoding: chunked\r\n\r\n".to_vec(),
        // a proxy refusing a CONNECT with an error page (received on a CONNECT flow, see recv_body_inner)
        7 => b"HTTP/1.1 407 Proxy Authentication Required\r\nProxy-Authenticate: Basic realm=\"p\"\r\nTransfer-Encoding: chunked\r\n\r\n".to_vec(),
        _ => CHUNK_HEAD.to_vec(),
    }
}

fn start_chunked(t: &mut Tracer, api: &str, c: &Coding, note: &str) -> Option<Rut> {
    match recv_body(api, &chunk_head(t.cases)) {
        Some(r) => {
            t.case(json!({"ev":"case","comp":"br","kind":"chunked","lay":lay_json(c),"N":limbs(0),"api":api,"note":note,"ready0":r.ready()}));
            Some(r)
        }
        None => {
            t.case(json!({"ev":"case","comp":"br","kind":"chunked","lay":lay_json(c),"N":limbs(0),"api":api,"note":note,"ready0":false}));
            t.ev(json!({"ev":"stuck","during":"reaching the body state of a chunked response (no body offered)"}));
            None
        }
    }
}

/// Deliver the stream with arrivals at `cuts` (ascending offsets), cycling through `outs`;
/// `stop_plan`: 0 = off, 1 = on, 2 = toggle after every read.
fn run_schedule(t: &mut Tracer, api: &str, c: &Coding, cuts: &[usize], outs: &[usize], stop_plan: u8, note: &str) {
    let mut r = match start_chunked(t, api, c, note) {
        Some(r) => r,
        None => return,
    };
    let mut st = ReadState { pos: 0, delivered: 0, stop: stop_plan == 1 };
    if st.stop {
        r.set_stop(true);
    }
    let total = c.bytes.len();
    let mut oi = 0;
    let mut reads = 0;
    let mut arrivals: Vec<usize> = cuts.to_vec();
    arrivals.push(total);
    for &a in &arrivals {
        let mut idle = 0;
        loop {
            let outl = outs[oi % outs.len()];
            oi += 1;
            let (cc, p, ok) = ev_read(t, &mut r, &c.bytes, a, outl, &mut st, &c.payload);
            reads += 1;
            if stop_plan == 2 {
                st.stop = !st.stop;
                r.set_stop(st.stop);
            }
            if !ok {
                return;
            }
            if cc == 0 && p == 0 {
                idle += 1;
                if idle >= outs.len() {
                    break;
                }
            } else {
                idle = 0;
            }
            if reads > 40 * total + 200 {
                t.ev(json!({"ev":"stuck","during":"chunked body read loop"}));
                return;
            }
        }
    }
    if !r.ready() {
        // everything arrived, every output size tried, still not ended
        t.ev(json!({"ev":"stuck","during":"chunked body never ended"}));
        return;
    }
    // reads after the end
    ev_read(t, &mut r, &c.bytes, total, 8, &mut st, &c.payload);
    if let Some((mc, state)) = r.verdict() {
        t.ev(json!({"ev":"verdict","must_close":mc,"state":state}));
    }
}

fn pat(n: usize, off: usize) -> Vec<u8> {
    const P: &[u8] = b"x\r\ny\rz\n\n\r0;a\r\n\r\n5\r\n";
    (0..n).map(|j| P[(off + j) % P.len()]).collect()
}

pub fn small_codings() -> Vec<Coding> {
    let mut v = vec![];
    let exts: [&[u8]; 2] = [b"", b";x"];
    let tail = b"5\r\nzz";
    let trs: [&[&[u8]]; 4] = [&[], &[b"t:v"], &[b"t:v", b"u: "], &[b"Expires: Wed, 21 Oct 2015 07:28:00 GMT", b"t:v"]];
    for n1 in [1usize, 2, 3] {
        for z in [0usize, 1] {
            for e in exts {
                for tr in trs {
                    let c1 = ChunkSpec { data: pat(n1, 0), zeros: z, upper: false, ext: e.to_vec() };
                    v.push(mk_coding(&[c1.clone()], z, e, tr, tail));
                    for n2 in [1usize, 3] {
                        let c2 = ChunkSpec { data: pat(n2, n1), zeros: 1 - z, upper: true, ext: vec![] };
                        v.push(mk_coding(&[c1.clone(), c2.clone()], 0, b"", tr, tail));
                        if n1 == 2 {
                            let c3 = ChunkSpec { data: pat(2, n1 + n2), zeros: 0, upper: false, ext: b";q=1".to_vec() };
                            v.push(mk_coding(&[c1.clone(), c2.clone(), c3], 1, e, tr, tail));
                        }
                    }
                }
            }
        }
    }
    v.push(mk_coding(&[], 0, b"", &[], tail));
    v.push(mk_coding(&[], 2, b";x", &[b"t:v"], tail));
    v
}

pub fn boundary_codings(rng: &mut StdRng) -> Vec<Coding> {
    let mut v = vec![];
    let tail = b"HTTP/1.1 200 OK\r\n";
    for &n in &[15usize, 16, 17, 255, 256, 257, 4095, 4096, 4097] {
        for upper in [false, true] {
            let c1 = ChunkSpec { data: payload(n, n as u64), zeros: rng.gen_range(0..3), upper, ext: if upper { b";ext=1".to_vec() } else { vec![] } };
            let c2 = ChunkSpec { data: pat(3, 1), zeros: 0, upper: false, ext: vec![] };
            let trs: &[&[u8]] = if upper { &[b"x-trailer: 1"] } else { &[] };
            v.push(mk_coding(&[c1.clone(), c2.clone()], 0, b"", trs, tail));
            v.push(mk_coding(&[c2, c1], 1, b"", trs, tail));
        }
    }
    v
}

pub fn random_coding(rng: &mut StdRng) -> Coding {
    let nch = rng.gen_range(0..6);
    let mut chunks = vec![];
    let mut off = 0;
    for _ in 0..nch {
        let n = match rng.gen_range(0..10) {
            0..=5 => rng.gen_range(1..8),
            6..=7 => rng.gen_range(8..40),
            8 => [15, 16, 255, 256][rng.gen_range(0..4)],
            _ => rng.gen_range(40..700),
        };
        let data = if rng.gen_bool(0.5) { pat(n, off) } else { payload(n, off as u64 + 7) };
        off += n;
        // chunk extensions, also with the optional whitespace (BWS = SP / HTAB) the grammar allows around ";"
        let ext: Vec<u8> = match rng.gen_range(0..8) {
            0 => b";x".to_vec(),
            1 => b";a=b;c".to_vec(),
            2 => b"\t;x".to_vec(),
            3 => b" ;a=b".to_vec(),
            4 => b" \t; x=1".to_vec(),
            5 => b";n=\"\xff\xe9\"".to_vec(),
            _ => vec![],
        };
        // keep the size line within the code's documented sanity limit (20 bytes)
        let zeros = rng.gen_range(0..3);
        chunks.push(ChunkSpec { data, zeros, upper: rng.gen_bool(0.5), ext });
    }
    let trs_all: [&[u8]; 3] = if rng.gen_bool(0.4) {
        [b"Expires: Wed, 21 Oct 2015 07:28:00 GMT", b"x-checksum-sha256: 9f86d081884c7d659a2feaa0c55ad015a3bf4f1b2b0b822cd15d6c15b0f00a08", b"u: "]
    } else {
        [b"t:v", b"x-check: abc", b"u: "]
    };
    let ntr = rng.gen_range(0..3);
    let trs: Vec<&[u8]> = (0..ntr).map(|i| trs_all[i]).collect();
    let tails: [&[u8]; 3] = [b"5\r\nzz", b"HTTP/1.1 200 OK\r\n\r\n", b"0\r\n\r\n"];
    let last_exts: [&[u8]; 6] = [b"", b"", b";x", b"\t;fin", b" ;fin=1", b""];
    mk_coding(&chunks, rng.gen_range(0..2), last_exts[rng.gen_range(0..6)], &trs, tails[rng.gen_range(0..3)])
}

fn replay_scripts(o: &Opts, t: &mut Tracer) -> (u64, u64) {
    let path = match &o.scripts {
        Some(p) => p.clone(),
        None => return (0, 0),
    };
    let text = std::fs::read_to_string(&path).expect("scripts file");
    let mut n = 0u64;
    let mut drift = 0u64;
    for (li, line) in text.lines().enumerate() {
        if o.quick() && li % 4 != (o.seed % 4) as usize {
            continue;
        }
        let s: Value = serde_json::from_str(line).unwrap();
        let cod = &s["coding"];
        let bytes: Vec<u8> = cod["bytes"].as_array().unwrap().iter().map(|x| x.as_u64().unwrap() as u8).collect();
        let l = cod["L"].as_u64().unwrap() as usize;
        let pay: Vec<(usize, usize)> = cod["pay"].as_array().unwrap().iter().map(|p| (p[0].as_u64().unwrap() as usize, p[1].as_u64().unwrap() as usize)).collect();
        let mut payload = vec![];
        for &(s0, n0) in &pay {
            payload.extend(&bytes[s0..s0 + n0]);
        }
        let c = Coding { bytes, l, pay, payload };
        selfcheck_coding(&c);
        let api = if li % 2 == 0 { "flow" } else { "call" };
        let mut r = match start_chunked(t, api, &c, "model-script") {
            Some(r) => r,
            None => continue,
        };
        n += 1;
        let mut st = ReadState { pos: 0, delivered: 0, stop: s["stop0"].as_bool().unwrap() };
        if st.stop {
            r.set_stop(true);
        }
        let mut avail = 0;
        for op in s["ops"].as_array().unwrap() {
            match op["op"].as_str().unwrap() {
                "arrive" => avail = (avail + op["k"].as_u64().unwrap() as usize).min(c.bytes.len()),
                "stop" => {
                    st.stop = op["b"].as_bool().unwrap();
                    r.set_stop(st.stop);
                    t.ev(json!({"ev":"stopset","b":st.stop}));
                }
                "read" => {
                    let (cc, p, ok) = ev_read(t, &mut r, &c.bytes, avail, op["o"].as_u64().unwrap() as usize, &mut st, &c.payload);
                    // the implementation-shaped model predicted this answer; a difference that the
                    // Abs guards accept is MODEL-DRIFT, reported in the evidence, never a violation
                    if !ok || cc as u64 != op["c"].as_u64().unwrap() || p as u64 != op["p"].as_u64().unwrap() {
                        drift += 1;
                    }
                    if !ok {
                        break;
                    }
                }
                _ => {}
            }
        }
        t.sig(format!("script/{}", li));
    }
    (n, drift)
}

pub fn c07(o: &Opts, t: &mut Tracer) -> Value {
    let (nscripts, drift) = replay_scripts(o, t);
    let mut rng = rng_for(o.seed, 0xC07);
    let outs_all: [&[usize]; 8] = [&[64], &[1], &[2], &[3], &[4], &[0, 1], &[0, 3, 1], &[1, 64, 2]];
    // exhaustive cut sets for tiny codings
    let small = small_codings();
    for c in &small {
        selfcheck_coding(c);
    }
    let mut n_exh = 0;
    for (ci, c) in small.iter().enumerate() {
        let total = c.bytes.len();
        if c.l <= 14 && total <= 19 && (!o.quick() || ci % 6 == 0) {
            // every subset of the cut positions inside the coding (tail arrives last or with it)
            let k = c.l;
            for mask in 0u32..(1u32 << (k - 1)) {
                if o.quick() && mask % 5 != (ci as u32 % 5) {
                    continue;
                }
                let cuts: Vec<usize> = (1..k).filter(|i| mask & (1 << (i - 1)) != 0).collect();
                let outs = outs_all[(mask as usize + ci) % outs_all.len()];
                run_schedule(t, if mask % 2 == 0 { "flow" } else { "call" }, c, &cuts, outs, (mask % 3) as u8, "exhaustive-cuts");
                n_exh += 1;
            }
            t.sig(format!("exh/{}", ci));
        }
    }
    // single and double cuts, 1-byte arrivals, for all small and boundary codings
    let mut all = small.clone();
    let bc = boundary_codings(&mut rng);
    for c in &bc {
        selfcheck_coding(c);
    }
    for (ci, c) in all.iter().enumerate() {
        let total = c.bytes.len();
        if o.quick() && ci % 3 != 0 {
            continue;
        }
        let ones: Vec<usize> = (1..total).collect();
        for (oi, outs) in outs_all.iter().enumerate() {
            run_schedule(t, ["flow", "call"][oi % 2], c, &ones, outs, (oi % 3) as u8, "one-byte");
        }
        t.sig(format!("ones/{}", ci));
        for a in 1..total {
            run_schedule(t, "flow", c, &[a], outs_all[a % outs_all.len()], (a % 3) as u8, "single-cut");
            if !o.quick() {
                for b in (a + 1)..total {
                    run_schedule(t, "call", c, &[a, b], outs_all[(a + b) % outs_all.len()], ((a + b) % 3) as u8, "double-cut");
                }
            }
        }
        t.sig(format!("cuts/{}", ci));
    }
    all.extend(bc.clone());
    for (ci, c) in bc.iter().enumerate() {
        let total = c.bytes.len();
        // cuts around every structural boundary of the coding
        let mut pts = vec![];
        for &(s, n) in &c.pay {
            for d in 0..5usize {
                pts.push((s + n + d).min(total - 1));
                pts.push(s.saturating_sub(d).max(1));
                pts.push((s + d).min(total - 1));
            }
        }
        for d in 0..8usize {
            pts.push(c.l.saturating_sub(d).max(1));
        }
        pts.sort();
        pts.dedup();
        for (pi, &a) in pts.iter().enumerate() {
            if o.quick() && pi % 3 != ci % 3 {
                continue;
            }
            let big = c.pay.iter().any(|&(_, n)| n > 300);
            let outs_big: [&[usize]; 6] = [&[64], &[4096], &[100000], &[255, 1], &[3000, 0], &[4095, 2]];
            let outs = if big { outs_big[pi % outs_big.len()] } else { outs_all[pi % outs_all.len()] };
            run_schedule(t, ["flow", "call"][pi % 2], c, &[a], outs, (pi % 3) as u8, "boundary-cut");
        }
        t.sig(format!("bcuts/{}", ci));
    }
    // chunks of 64 KiB and more (five and more hex digits in the size line), read with large buffers
    for (k, &n) in [65535usize, 65536, 65537, 0xFFFFF, 1 << 20, (1 << 24) + 3].iter().enumerate() {
        if o.quick() && n > (1 << 20) {
            continue;
        }
        let small = ChunkSpec { data: pat(3, 1), zeros: 0, upper: false, ext: vec![] };
        let huge = ChunkSpec { data: payload(n, n as u64), zeros: k % 3, upper: k % 2 == 0, ext: if k % 3 == 1 { b";x".to_vec() } else { vec![] } };
        let c = mk_coding(&[small.clone(), huge, small], 0, b"", if k % 2 == 0 { &[b"t: v"] } else { &[] }, b"HTTP/1.1 200 OK\r\n");
        selfcheck_coding(&c);
        let outs_huge: [&[usize]; 4] = [&[1 << 20], &[100000], &[65536, 4096], &[70000, 1]];
        for (j, outs) in outs_huge.iter().enumerate() {
            let cut = [c.l / 2, 8 + 4, c.l - 3, 70000.min(c.l - 1)][j];
            run_schedule(t, ["flow", "call"][(j + k) % 2], &c, &[cut], outs, (j % 3) as u8, "huge-chunk");
        }
        t.class("r:chunk-of-64k-or-more");
        t.sig(format!("huge/{}", n));
    }
    // the payload is read with exactly fitting buffers, everything after it (CRLF, last chunk, trailers,
    // final CRLF) is drained with a zero-length output buffer; and data-less bodies with zero-length buffers only
    for (ci, c) in all.iter().enumerate() {
        if o.quick() && ci % 4 != 1 {
            continue;
        }
        let total = c.bytes.len();
        let exact: Vec<usize> = c.pay.iter().map(|&(_, n)| n).collect();
        let mut r = match start_chunked(t, ["flow", "call"][ci % 2], c, "exact-then-zero") {
            Some(r) => r,
            None => continue,
        };
        let mut st = ReadState { pos: 0, delivered: 0, stop: ci % 3 == 0 };
        if st.stop {
            r.set_stop(true);
        }
        for &n in &exact {
            ev_read(t, &mut r, &c.bytes, total, n, &mut st, &c.payload);
        }
        let mut guard = 0;
        while !r.ready() && guard < 12 {
            guard += 1;
            let (cc, p, ok) = ev_read(t, &mut r, &c.bytes, total, 0, &mut st, &c.payload);
            if !ok || cc + p == 0 {
                break;
            }
        }
        if !r.ready() {
            t.ev(json!({"ev":"stuck","during":"chunked body never ended with zero-length output after all data was delivered"}));
        }
        t.class("r:zero-out-framing");
        t.sig(format!("exact-zero/{}", ci));
    }
    // random codings, random schedules
    let nrand = if o.quick() { 250 } else { 12000 };
    for i in 0..nrand {
        let c = random_coding(&mut rng);
        selfcheck_coding(&c);
        let total = c.bytes.len();
        let ncuts = rng.gen_range(0..6.min(total));
        let mut cuts: Vec<usize> = (0..ncuts).map(|_| rng.gen_range(1..total)).collect();
        cuts.sort();
        cuts.dedup();
        let outs: Vec<usize> = (0..rng.gen_range(1..4)).map(|_| [0usize, 1, 2, 3, 4, 7, 64, 1000][rng.gen_range(0..8)]).collect();
        let outs = if outs.iter().all(|&x| x == 0) { vec![0, 5] } else { outs };
        run_schedule(t, ["flow", "call"][i % 2], &c, &cuts, &outs, rng.gen_range(0..3), "random");
        t.sig(format!("rnd/{}/{}/{}", c.pay.len(), ncuts, outs.len()));
    }
    json!({"scripts": nscripts, "model_drift": drift, "exhaustive_cut_sets": n_exh})
}

// ------------------------------------------------------------------------------------------ C08

fn c08_length(t: &mut Tracer, api: &str, n: u64, arrive: &[usize], outs: &[usize], body: &[u8], tail: &[u8]) {
    // the same length framing under different response versions / neighbouring header fields
    let head = match ((n % 1000) as usize + arrive.len() + outs.len()) % 14 {
        // a Location on a response that is no redirect
        13 => format!("HTTP/1.1 201 Created\r\nLocation: /made/17\r\nContent-Length: {}\r\nX-After: 1\r\n\r\n", n),
        9 => format!("HTTP/1.1 205 Reset Content\r\nContent-Length: {}\r\n\r\n", n),
        10 => format!("HTTP/1.1 206 Partial Content\r\nX-Cache:\r\nVary: \r\nContent-Length: {}\r\n\r\n", n),
        // empty lines ahead of the status line (left over after a previous body) belong to the head that follows
        11 => format!("\r\nHTTP/1.1 200 OK\r\nContent-Length: {}\r\n\r\n", n),
        12 => format!("\r\n\r\nHTTP/1.1 203 Non-Authoritative\r\nContent-Length: {}\r\nContent-Length: {}\r\n\r\n", n, n),
        // a transfer coding other than chunked next to the length: still exactly Content-Length bytes (C06)
        8 => format!("HTTP/1.1 200 OK\r\nTransfer-Encoding: {}\r\nContent-Length: {}\r\n\r\n", ["gzip", "identity, deflate", "x-custom"][(n % 3) as usize], n),
        // a redirect with a body: the body is read like any other before the flow moves on
        6 => format!("HTTP/1.1 302 Found\r\nLocation: /next\r\nContent-Length: {}\r\n\r\n", n),
        7 => format!("HTTP/1.1 30{} Moved\r\nContent-Length: {}\r\nLocation: http://b.test/x\r\nConnection: keep-alive\r\n\r\n", [1, 3, 7, 8][(n % 4) as usize], n),
        5 => format!("HTTP/1.1 407 Proxy Authentication Required\r\nContent-Length: {}\r\nProxy-Authenticate: Basic\r\n\r\n", n),
        0 => format!("HTTP/1.0 200 OK\r\nContent-Length: {}\r\n\r\n", n),
        1 => format!("HTTP/1.0 200 OK\r\nTransfer-Encoding: chunked\r\nContent-Length: {}\r\n\r\n", n),
        2 => format!("HTTP/1.1 404 Not Found\r\nServer: x\r\ncontent-length: {}\r\nConnection: keep-alive\r\n\r\n", n),
        _ => format!("HTTP/1.1 200 OK\r\nContent-Length: {}\r\n\r\n", n),
    };
    let r = recv_body(api, head.as_bytes());
    let mut r = match r {
        Some(r) => r,
        None => {
            // N = 0: the body state is skipped (C06); nothing to read
            if n > 0 {
                t.case(json!({"ev":"case","comp":"br","kind":"length","lay":{"L":0,"pay":[]},"N":limbs(n),"api":api,"ready0":false,"note":"body state not reached"}));
                t.ev(json!({"ev":"stuck","during":"reaching the body state of a response with Content-Length > 0 (no body offered)"}));
            }
            return;
        }
    };
    let have = (n.min(body.len() as u64)) as usize;
    let mut stream = body[..have].to_vec();
    if (have as u64) == n {
        stream.extend(tail);
    }
    t.case(json!({"ev":"case","comp":"br","kind":"length","lay":{"L":0,"pay":[]},"N":limbs(n),"api":api,"ready0":r.ready()}));
    t.sig(format!("len/{}/{}/{:?}", api, n.min(70001), outs));
    let mut st = ReadState { pos: 0, delivered: 0, stop: false };
    let mut oi = 0;
    let total = stream.len();
    let mut arrivals: Vec<usize> = arrive.iter().map(|&a| a.min(total)).collect();
    arrivals.push(total);
    let mut reads = 0;
    for &a in &arrivals {
        let mut idle = 0;
        loop {
            let outl = outs[oi % outs.len()];
            oi += 1;
            let (c, p, ok) = ev_read(t, &mut r, &stream, a, outl, &mut st, &stream);
            reads += 1;
            if !ok {
                return;
            }
            if c == 0 && p == 0 {
                idle += 1;
                if idle >= outs.len() {
                    break;
                }
            } else {
                idle = 0;
            }
            if reads > 4 * total + 100 {
                t.ev(json!({"ev":"stuck","during":"length body read loop"}));
                return;
            }
        }
    }
    // reads after the body is complete consume nothing, however often and whatever follows
    ev_read(t, &mut r, &stream, total, 16, &mut st, &stream);
    ev_read(t, &mut r, &stream, total, 0, &mut st, &stream);
    ev_read(t, &mut r, &stream, total, 65536, &mut st, &stream);
    if r.ready() {
        if let Some((mc, state)) = r.verdict() {
            t.ev(json!({"ev":"verdict","must_close":mc,"state":state}));
        }
    }
}

fn c08_close(t: &mut Tracer, api: &str, http10: bool, rng: &mut StdRng, body: &[u8]) {
    // no framing header at all: delimited by the close, whatever else the server says about the connection
    let heads: [&[u8]; 8] = [b"HTTP/1.1 200 OK\r\n\r\n", b"HTTP/1.1 200 OK\r\nConnection: keep-alive\r\n\r\n", b"HTTP/1.1 404 Not Found\r\nConnection: Keep-Alive, Upgrade\r\nServer: x\r\n\r\n",
                            b"HTTP/1.1 200 OK\r\nKeep-Alive: timeout=5\r\nConnection: keep-alive\r\n\r\n", b"HTTP/1.1 500 Oops\r\nConnection: close\r\n\r\n", b"HTTP/1.1 200 OK\r\nTransfer-Encoding: gzip\r\n\r\n",
                            b"HTTP/1.1 205 Reset Content\r\nX-Cache:\r\n\r\n", b"\r\nHTTP/1.1 200 OK\r\nServer: x\r\n\r\n"];
    let heads10: [&[u8]; 3] = [b"HTTP/1.0 200 OK\r\nServer: x\r\n\r\n", b"HTTP/1.0 200 OK\r\nConnection: keep-alive\r\n\r\n", b"HTTP/1.0 200 OK\r\nTransfer-Encoding: chunked\r\n\r\n"];
    let head: &[u8] = if http10 { heads10[(t.cases % 3) as usize] } else { heads[(t.cases % 8) as usize] };
    if head.windows(10).any(|w| w.eq_ignore_ascii_case(b"keep-alive")) {
        t.class("close:keep-alive-promised");
    }
    let mut r = match recv_body(api, head) {
        Some(r) => r,
        None => {
            t.case(json!({"ev":"case","comp":"br","kind":"close","lay":{"L":0,"pay":[]},"N":limbs(0),"api":api,"ready0":false,"note":"body state not reached"}));
            t.ev(json!({"ev":"stuck","during":"reaching the body state of a close-delimited response (no body offered)"}));
            return;
        }
    };
    t.case(json!({"ev":"case","comp":"br","kind":"close","lay":{"L":0,"pay":[]},"N":limbs(0),"api":api,"ready0":r.ready()}));
    t.ev(json!({"ev":"note","ready0":r.ready()}));
    let mut st = ReadState { pos: 0, delivered: 0, stop: false };
    let total = body.len();
    let mut avail = 0;
    let mut steps = 0;
    while st.pos < total && steps < 400 {
        steps += 1;
        if avail < total && rng.gen_bool(0.6) {
            avail = (avail + [1usize, 2, 7, 100, 5000][rng.gen_range(0..5)]).min(total);
        }
        let outl = [0usize, 1, 2, 3, 64, 65536][rng.gen_range(0..6)];
        ev_read(t, &mut r, body, avail, outl, &mut st, body);
    }
    t.sig(format!("close/{}/{}/{}", api, http10, total.min(9)));
    if let Some((mc, state)) = r.verdict() {
        t.class("verdict:close");
        t.ev(json!({"ev":"verdict","must_close":mc,"state":state}));
    }
}

pub fn c08(o: &Opts, t: &mut Tracer) -> Value {
    let body = payload(70010, 8);
    let tail = b"HTTP/1.1 200 OK\r\nContent-Length: 3\r\n\r\nabc";
    let mut rng = rng_for(o.seed, 0xC08);
    let mut ns: Vec<u64> = if o.quick() {
        let mut v: Vec<u64> = (0..=64).collect();
        v.extend([127, 128, 255, 256, 299, 300, 301, 1023, 1024, 4096, 65535, 65536, 69999, 70000]);
        for _ in 0..30 {
            v.push(rng.gen_range(65..70000));
        }
        v
    } else {
        (0..=70000).collect()
    };
    ns.sort();
    let tails: [&[u8]; 4] = [tail, b"\r\nHTTP/1.1 200 OK\r\nContent-Length: 0\r\n\r\n", tail, b"\r\n\r\n\r\nHTTP/1.1 204 No Content\r\n\r\n"];
    for (i, &n) in ns.iter().enumerate() {
        // what follows the body in the window: the next response, sometimes preceded by stray empty lines
        let tail: &[u8] = tails[i % 4];
        let nn = n as usize;
        let api = ["flow", "call"][i % 2];
        if n <= 300 {
            let sizes = [0usize, 1, 2, nn.saturating_sub(1), nn, nn + 1, nn + 7, 65536];
            // every arrival point x a rotating choice of output sizes
            for (k, &a) in sizes.iter().enumerate() {
                if n > 64 && k % 3 != i % 3 {
                    continue;
                }
                let outs = [sizes[(k + i) % 8], sizes[(k + 3) % 8].max(1)];
                c08_length(t, api, n, &[a], &outs, &body, tail);
            }
            if n <= 64 {
                c08_length(t, api, n, &(1..nn.min(40)).collect::<Vec<_>>(), &[1, 0, 3], &body, tail);
            }
        } else {
            // big bodies: window / buffer sizes around N, never thousands of tiny reads
            let sizes = [nn / 3 + 1, nn.saturating_sub(1), nn, nn + 1, nn + 7, 65536, nn / 2, 4096];
            let arr = [0usize, 1, 2, nn - 1, nn, nn + 1, nn + 7, nn / 2];
            let reps = if o.quick() { 4 } else { 1 };
            for k in 0..reps {
                let a = arr[(i + k) % 8];
                let outs = [sizes[(i / 8 + k) % 8], sizes[(i / 64 + 2 * k + 1) % 8]];
                c08_length(t, api, n, &[a, nn / 2 + k], &outs, &body, tail);
            }
            if i % 16 == 0 {
                // one zero-length buffer / zero-length window interleaved
                c08_length(t, api, n, &[0, 0, nn + 3], &[0, nn / 2 + 1], &body, tail);
            }
        }
    }
    // large values: short reads only
    for &n in &[(1u64 << 31) + 3, 1u64 << 32, (1u64 << 32) + 1, 1u64 << 63, u64::MAX - 1, u64::MAX] {
        for api in ["flow", "call"] {
            c08_length(t, api, n, &[0, 1, 5, 100], &[0, 1, 64, 70000], &body[..3000], tail);
        }
    }
    // a body longer than 4 GiB really streamed through (windows of 32 MiB from one reused buffer):
    // the length must still be honoured to the byte, with the next response left unconsumed
    {
        // (the bulk goes through with logging off: hex-dumping 8 GiB into the log sink is not what this case is about)
        let level = log::max_level();
        log::set_max_level(log::LevelFilter::Off);
        let big = payload(1 << 25, 88);
        for (n, api) in [((1u64 << 32) + 10, "flow"), ((1u64 << 32) - 1 + (1 << 25), "call")] {
            let head = format!("HTTP/1.1 200 OK\r\nContent-Length: {}\r\n\r\n", n);
            let mut r = match recv_body(api, head.as_bytes()) {
                Some(r) => r,
                None => {
                    t.case(json!({"ev":"case","comp":"br","kind":"length","lay":{"L":0,"pay":[]},"N":limbs(n),"api":api,"ready0":false,"note":"body state not reached"}));
                    t.ev(json!({"ev":"stuck","during":"reaching the body state of a response with Content-Length > 0 (no body offered)"}));
                    continue;
                }
            };
            t.case(json!({"ev":"case","comp":"br","kind":"length","lay":{"L":0,"pay":[]},"N":limbs(n),"api":api,"ready0":r.ready(),"note":"streamed >4GiB"}));
            t.sig(format!("stream/{}", n));
            t.class("r:streamed-4g");
            let mut pos: u64 = 0;
            let mut out = vec![0u8; 1 << 25];
            let mut guard = 0;
            loop {
                guard += 1;
                if pos > n {
                    t.ev(json!({"ev":"stuck","during":"streaming a length-delimited body (more bytes consumed than the body has)"}));
                    break;
                }
                let rest = n - pos;
                let window: Vec<u8>;
                let w: &[u8] = if rest >= big.len() as u64 {
                    &big
                } else {
                    let mut v = big[..rest as usize].to_vec();
                    v.extend_from_slice(tail);
                    window = v;
                    &window
                };
                let outl = if guard % 7 == 3 { (1 << 25) - 5 } else { 1 << 25 };
                match r.read(w, &mut out[..outl]) {
                    Some(Ok((c, p))) => {
                        let ok = p <= outl && p <= w.len() && out[..p] == w[..p];
                        t.ev(json!({"ev":"r","w":w.len(),"outl":outl,"stop":false,"res":"ok","c":c,"p":p,"content_ok":ok,"subseq_ok":ok,"ready":r.ready(),"boundary":false}));
                        pos += c as u64;
                        if (c == 0 && p == 0) || guard > 400 {
                            break;
                        }
                    }
                    Some(Err(e)) => {
                        t.ev(json!({"ev":"r","w":w.len(),"outl":outl,"stop":false,"res":"err","err":format!("{:?}", e),"c":0,"p":0,"content_ok":true,"subseq_ok":true,"ready":r.ready(),"boundary":false}));
                        break;
                    }
                    None => {
                        t.ev(json!({"ev":"panic","during":"body read"}));
                        break;
                    }
                }
            }
        }
        log::set_max_level(level);
    }
    // close-delimited
    let nclose = if o.quick() { 60 } else { 3000 };
    for i in 0..nclose {
        let len = [0usize, 1, 5, 100, 3000, 20000][i % 6];
        c08_close(t, ["flow", "call"][i % 2], i % 4 < 2, &mut rng, &body[..len]);
    }
    json!({})
}
