//! Drivers for head parsing (C05, C20) and response framing (C06).
use crate::fx::*;
use crate::util::*;
use serde_json::{json, Value};
use std::collections::BTreeMap;
use ureq_proto::client::flow::{Flow, RecvResponseResult};
use ureq_proto::http::{HeaderMap, Request, Version};
use ureq_proto::parser::{try_parse_partial_response, try_parse_request, try_parse_response};
use ureq_proto::{BodyMode, Error};

pub struct GenHead {
    pub bytes: Vec<u8>,
    pub h: usize,
    pub sl: usize,
    pub ends: Vec<usize>,
    pub locs: Vec<usize>,
    pub status: u16,
    pub method: String,
    pub http10: bool,
    pub fields: Vec<(String, Vec<u8>)>,
}

impl GenHead {
    pub fn lay(&self) -> Value {
        json!({"H": self.h, "nf": self.fields.len(), "status": self.status, "sl": self.sl, "ends": self.ends, "locs": self.locs})
    }
}

const NAMES: [&str; 14] = [
    "Content-Type", "X-A", "x-b", "Set-Cookie", "Server", "Date", "Vary", "ETag", "x-Long-Header-Name-0123456789",
    "Set-Cookie", "X-A", "Cache-Control", "Connection", "Via",
];
/// names with a meaning elsewhere in the protocol; to a head parser they are fields like any other
const LOADED_NAMES: [&str; 12] = [
    "Location", "Content-Location", "Expect", "Upgrade", "Trailer", "Keep-Alive", "Retry-After", "WWW-Authenticate", "Allow", "TE", "Age", "Refresh",
];
/// for the standalone parsers (no framing semantics behind them) also these
const WILD_NAMES: [&str; 6] = ["Expect", "Host", "Content-Length", "Transfer-Encoding", "expect", "Content-length"];

/// (bytes on the wire after the colon, expected value with surrounding whitespace stripped)
fn gen_value(rng: &mut StdRng) -> (Vec<u8>, Vec<u8>) {
    let core: Vec<u8> = match rng.gen_range(0..9) {
        0 => vec![],
        1 => b"v".to_vec(),
        2 => b"text/html; charset=utf-8".to_vec(),
        3 => b"a b  c".to_vec(),
        4 => b"http://x.test/y:z?q=1".to_vec(),
        5 => vec![b'c', b'a', b'f', 0xE9, b' ', 0x80, 0xFF],
        6 => payload(rng.gen_range(1..120), 5).iter().map(|b| b'!' + (b % 90)).collect(),
        7 => b"keep-alive".to_vec(),
        _ => b"1".to_vec(),
    };
    let (pre, post): (&[u8], &[u8]) = match rng.gen_range(0..6) {
        0 => (b"", b""),
        1 => (b" ", b""),
        2 => (b"  ", b"  "),
        3 => (b"\t", b"\t"),
        4 => (b" \t ", b" "),
        _ => (b" ", b""),
    };
    let mut w = pre.to_vec();
    w.extend(&core);
    w.extend(post);
    (w, core)
}

pub struct HeadOpts {
    pub nfields: usize,
    pub status: u16,
    pub http10: bool,
    pub reason: u8,
    pub loc_at: Option<usize>,
    pub request: Option<&'static str>,
    pub framing: bool,
    /// standalone parser: any field name goes
    pub wild: bool,
    /// the first field has a value of 70 000 bytes (a head longer than 64 KiB)
    pub giant: bool,
}

pub fn gen_head(rng: &mut StdRng, o: &HeadOpts) -> GenHead {
    let mut b: Vec<u8> = vec![];
    let ver = if o.http10 { "HTTP/1.0" } else { "HTTP/1.1" };
    let mut method = String::new();
    if let Some(m) = o.request {
        method = m.to_string();
        let target = ["/", "/a/b?x=1", "*", "http://h.test/abs", "http://caf%C3%A9.example/menu?today", "h.test:443", "/search?", "/%zz%00?%", "http://[::1]:8080/p;v=1?q#f",
                      "/a,b;c=d/@x?y=1,2&z=[]"][rng.gen_range(0..10)];
        b.extend(format!("{} {} {}\r\n", m, target, ver).as_bytes());
    } else {
        let reason: String = match o.reason {
            0 => " ".into(),
            1 => " OK".into(),
            2 => " Moved Permanently".into(),
            _ => format!(" {}", "Very Long Reason Phrase ".repeat(9)),
        };
        b.extend(format!("{} {}{}\r\n", ver, o.status, reason).as_bytes());
    }
    let sl = b.len();
    let mut ends = vec![];
    let mut locs = vec![];
    let mut fields = vec![];
    for i in 0..o.nfields {
        let (name, wire, val): (String, Vec<u8>, Vec<u8>) = if o.loc_at == Some(i) || (o.loc_at.is_some() && o.nfields > 6 && i == o.nfields - 2) {
            let n = ["Location", "location", "LOCATION"][rng.gen_range(0..3)];
            let v: &[u8] = [&b"/next"[..], b"http://b.test/x?y=1", b"../up"][rng.gen_range(0..3)];
            let mut w = b" ".to_vec();
            w.extend(v);
            locs.push(i + 1);
            (n.to_string(), w, v.to_vec())
        } else if o.giant && i == 0 {
            let v = vec![b'v'; 70000];
            let mut w = b" ".to_vec();
            w.extend(&v);
            ("X-Big".to_string(), w, v)
        } else if o.framing && i == 0 && rng.gen_bool(0.5) {
            let v = rng.gen_range(0..5000u32).to_string();
            ("Content-Length".to_string(), format!(" {}", v).into_bytes(), v.into_bytes())
        } else if o.framing && i == 1 && fields.first().map(|f: &(String, Vec<u8>)| f.0 == "content-length").unwrap_or(false) && rng.gen_bool(0.4) {
            // the same Content-Length once more: a field like any other to the head parser
            let v = fields[0].1.clone();
            let mut w = b" ".to_vec();
            w.extend(&v);
            ("content-length".to_string(), w, v)
        } else if o.framing && i == 1 && rng.gen_bool(0.3) {
            ("Transfer-Encoding".to_string(), b" chunked".to_vec(), b"chunked".to_vec())
        } else {
            let n = match rng.gen_range(0..10) {
                0 | 1 => LOADED_NAMES[rng.gen_range(0..LOADED_NAMES.len())],
                2 | 3 if o.wild => WILD_NAMES[rng.gen_range(0..WILD_NAMES.len())],
                _ => NAMES[rng.gen_range(0..NAMES.len())],
            };
            let (w, v) = if n.eq_ignore_ascii_case("expect") && rng.gen_bool(0.5) { (b" 100-continue".to_vec(), b"100-continue".to_vec()) } else { gen_value(rng) };
            if n == "Location" {
                locs.push(i + 1);
            }
            (n.to_string(), w, v)
        };
        b.extend(name.as_bytes());
        b.push(b':');
        b.extend(&wire);
        b.extend(b"\r\n");
        ends.push(b.len());
        fields.push((name.to_ascii_lowercase(), val));
    }
    b.extend(b"\r\n");
    let h = b.len();
    // arbitrary further bytes
    let extra = rng.gen_range(3..40);
    let tail: Vec<u8> = match rng.gen_range(0..3) {
        0 => payload(extra, 77),
        1 => b"HTTP/1.1 200 OK\r\nX: y\r\n\r\nbody".to_vec(),
        _ => b"\r\n\r\nabc\r\n\r\n".to_vec(),
    };
    b.extend(tail);
    GenHead { bytes: b, h, sl, ends, locs, status: o.status, method, http10: o.http10, fields }
}

/// independent re-lex of a generated head; must reproduce the abstract description
pub fn selfcheck_head(g: &GenHead) {
    let b = &g.bytes[..g.h];
    let mut lines = vec![];
    let mut pos = 0;
    while pos < b.len() {
        let e = (pos..b.len() - 1).find(|&i| b[i] == b'\r' && b[i + 1] == b'\n').expect("harness: head line");
        lines.push((pos, e));
        pos = e + 2;
    }
    let ok = lines.len() == g.fields.len() + 2
        && lines.last().map(|l| l.0 == l.1).unwrap_or(false)
        && lines[0].1 + 2 == g.sl
        && (0..g.fields.len()).all(|i| {
            let (s, e) = lines[i + 1];
            let line = &b[s..e];
            let colon = line.iter().position(|&c| c == b':').unwrap_or(0);
            let name = String::from_utf8_lossy(&line[..colon]).to_ascii_lowercase();
            let mut v = &line[colon + 1..];
            while let [b' ' | b'\t', rest @ ..] = v {
                v = rest;
            }
            while let [rest @ .., b' ' | b'\t'] = v {
                v = rest;
            }
            e + 2 == g.ends[i] && name == g.fields[i].0 && v == &g.fields[i].1[..]
        });
    if !ok {
        eprintln!("harness self-check failed: head generator and lexer disagree");
        std::process::exit(2);
    }
}

fn expected_map(fields: &[(String, Vec<u8>)]) -> BTreeMap<String, Vec<Vec<u8>>> {
    let mut m: BTreeMap<String, Vec<Vec<u8>>> = BTreeMap::new();
    for (n, v) in fields {
        m.entry(n.clone()).or_default().push(v.clone());
    }
    m
}

fn actual_map(h: &HeaderMap) -> BTreeMap<String, Vec<Vec<u8>>> {
    let mut m: BTreeMap<String, Vec<Vec<u8>>> = BTreeMap::new();
    for k in h.keys() {
        m.insert(k.as_str().to_string(), h.get_all(k).iter().map(|v| v.as_bytes().to_vec()).collect());
    }
    m
}

fn version_is_10(v: Version) -> bool {
    v == Version::HTTP_10
}

fn err_event(api: &str, p: usize, limit: usize, e: &Error) -> Value {
    json!({"ev":"offer","api":api,"p":p,"limit":limit,"res":"err","c":0,"head_ok":true,
           "toomany": matches!(e, Error::HttpParseTooManyHeaders), "err": format!("{:?}", e)})
}

/// Growing windows offered to ONE receiver (the caller re-presents unconsumed bytes): stops at the first
/// response or error. Events are the same `offer` events (the guard is per offer).
/// the receiver of an offer: flows of different request methods, a third of them with an Expect handshake that timed out
fn flow_for_offers(g: &GenHead) -> ureq_proto::client::flow::Flow<(), ureq_proto::client::flow::state::RecvResponse> {
    let k = g.h + g.fields.len();
    if k % 3 == 2 && (k / 3) % 2 == 1 && g.status != 100 {
        // the head now offered was already seen (and not consumed) while the request awaited 100-continue
        if let Some(f) = crate::fx::flow_recv_response_after_refusal(["POST", "PUT", "PATCH"][(k / 6) % 3], &g.bytes[..g.h]) {
            return f;
        }
    }
    if k % 3 == 2 {
        flow_recv_response_after_timeout(["POST", "PUT", "PATCH"][k % 3])
    } else {
        flow_recv_response(["GET", "POST", "PUT", "OPTIONS", "DELETE", "CONNECT", "HEAD", "TRACE"][k % 8])
    }
}

fn offer_sequence(t: &mut Tracer, g: &GenHead, ps: &[usize], api: &str) {
    let exp = expected_map(&g.fields);
    if api == "flow" {
        let mut f = flow_for_offers(g);
        for &p in ps {
            let input = &g.bytes[..p.min(g.bytes.len())];
            match guarded(|| f.try_response(input)) {
                None => {
                    t.ev(json!({"ev":"panic","during":"try_response"}));
                    return;
                }
                Some(Err(e)) => {
                    t.ev(err_event(api, p, 128, &e));
                    return;
                }
                Some(Ok((c, None))) => t.ev(json!({"ev":"offer","api":api,"p":p,"limit":128,"res":"none","c":c,"head_ok":true,"toomany":false,"seq":true})),
                Some(Ok((c, Some(r)))) => {
                    let ok = r.status().as_u16() == g.status && version_is_10(r.version()) == g.http10 && actual_map(r.headers()) == exp;
                    t.ev(json!({"ev":"offer","api":api,"p":p,"limit":128,"res":"some","c":c,"head_ok":ok,"toomany":false,"seq":true}));
                    return;
                }
            }
        }
    } else {
        let mut c0 = call_recv_response(["GET", "POST", "PATCH", "TRACE", "CONNECT", "HEAD"][(g.h + g.fields.len()) % 6]);
        for &p in ps {
            let input = &g.bytes[..p.min(g.bytes.len())];
            match guarded(|| c0.try_response(input)) {
                None => {
                    t.ev(json!({"ev":"panic","during":"Call::try_response"}));
                    return;
                }
                Some(Err(e)) => {
                    t.ev(err_event(api, p, 128, &e));
                    return;
                }
                Some(Ok(None)) => t.ev(json!({"ev":"offer","api":api,"p":p,"limit":128,"res":"none","c":0,"head_ok":true,"toomany":false,"seq":true})),
                Some(Ok(Some((c, r)))) => {
                    let ok = r.status().as_u16() == g.status && version_is_10(r.version()) == g.http10 && actual_map(r.headers()) == exp;
                    t.ev(json!({"ev":"offer","api":api,"p":p,"limit":128,"res":"some","c":c,"head_ok":ok,"toomany":false,"seq":true}));
                    return;
                }
            }
        }
    }
}

/// a head written out by hand (directed cases): status line, the given fields, empty line, then a few further bytes
fn manual_head(status: u16, fields: &[(&str, &[u8])]) -> GenHead {
    let mut b = format!("HTTP/1.1 {} Directed\r\n", status).into_bytes();
    let sl = b.len();
    let mut ends = vec![];
    let mut locs = vec![];
    let mut fs = vec![];
    for (i, (n, v)) in fields.iter().enumerate() {
        b.extend(n.as_bytes());
        b.extend(b": ");
        b.extend(*v);
        b.extend(b"\r\n");
        ends.push(b.len());
        if n.eq_ignore_ascii_case("location") {
            locs.push(i + 1);
        }
        fs.push((n.to_ascii_lowercase(), v.to_vec()));
    }
    b.extend(b"\r\n");
    let h = b.len();
    b.extend(b"\r\nabc");
    GenHead { bytes: b, h, sl, ends, locs, status, method: String::new(), http10: false, fields: fs }
}

/// one offer of the whole head (and a little more) to a flow of the given request method
fn offer_to_method(t: &mut Tracer, g: &GenHead, method: &str) {
    let p = g.bytes.len();
    let mut f = flow_recv_response(method);
    match guarded(|| f.try_response(&g.bytes)) {
        None => t.ev(json!({"ev":"panic","during":"try_response"})),
        Some(Err(e)) => t.ev(err_event("flow", p, 128, &e)),
        Some(Ok((c, None))) => t.ev(json!({"ev":"offer","api":"flow","p":p,"limit":128,"res":"none","c":c,"head_ok":true,"toomany":false})),
        Some(Ok((c, Some(r)))) => {
            let ok = r.status().as_u16() == g.status && version_is_10(r.version()) == g.http10 && actual_map(r.headers()) == expected_map(&g.fields);
            t.ev(json!({"ev":"offer","api":"flow","p":p,"limit":128,"res":"some","c":c,"head_ok":ok,"toomany":false}));
        }
    }
}

/// The head is offered to a receiver that has already handed out an interim response, which itself arrived in two
/// pieces (cut at `cut`): what the receiver remembers from the earlier head must not matter.
fn offer_after_interim(t: &mut Tracer, g: &GenHead, api: &str, cut: usize) {
    let interim: Vec<u8> = format!("HTTP/1.1 103 Early Hints\r\nLink: </{}>; rel=preload\r\nLink: </b.css>; rel=preload\r\n\r\n", "a".repeat(150)).into_bytes();
    let cut = cut.min(interim.len() - 1);
    let exp = expected_map(&g.fields);
    let p = g.bytes.len();
    if api == "flow" {
        let k = g.h + g.fields.len();
        let mut f = flow_recv_response(["GET", "POST", "DELETE"][k % 3]);
        let ok1 = matches!(guarded(|| f.try_response(&interim[..cut])), Some(Ok((0, None))));
        let ok2 = matches!(guarded(|| f.try_response(&interim)), Some(Ok((n, Some(r)))) if n == interim.len() && r.status() == 103);
        if !(ok1 && ok2) {
            t.ev(json!({"ev":"stuck","during":"an interim 103 response arriving in two pieces"}));
            return;
        }
        match guarded(|| f.try_response(&g.bytes)) {
            None => t.ev(json!({"ev":"panic","during":"try_response after an interim response"})),
            Some(Err(e)) => t.ev(err_event(api, p, 128, &e)),
            Some(Ok((c, None))) => t.ev(json!({"ev":"offer","api":api,"p":p,"limit":128,"res":"none","c":c,"head_ok":true,"toomany":false,"seq":true})),
            Some(Ok((c, Some(r)))) => {
                let ok = r.status().as_u16() == g.status && version_is_10(r.version()) == g.http10 && actual_map(r.headers()) == exp;
                t.ev(json!({"ev":"offer","api":api,"p":p,"limit":128,"res":"some","c":c,"head_ok":ok,"toomany":false,"seq":true}));
            }
        }
    } else {
        let mut c0 = call_recv_response(["GET", "POST"][(g.h + g.fields.len()) % 2]);
        let ok1 = matches!(guarded(|| c0.try_response(&interim[..cut])), Some(Ok(None)));
        let ok2 = matches!(guarded(|| c0.try_response(&interim)), Some(Ok(Some((n, r)))) if n == interim.len() && r.status() == 103);
        if !(ok1 && ok2) {
            t.ev(json!({"ev":"stuck","during":"an interim 103 response arriving in two pieces (single-call API)"}));
            return;
        }
        match guarded(|| c0.try_response(&g.bytes)) {
            None => t.ev(json!({"ev":"panic","during":"Call::try_response after an interim response"})),
            Some(Err(e)) => t.ev(err_event(api, p, 128, &e)),
            Some(Ok(None)) => t.ev(json!({"ev":"offer","api":api,"p":p,"limit":128,"res":"none","c":0,"head_ok":true,"toomany":false,"seq":true})),
            Some(Ok(Some((c, r)))) => {
                let ok = r.status().as_u16() == g.status && version_is_10(r.version()) == g.http10 && actual_map(r.headers()) == exp;
                t.ev(json!({"ev":"offer","api":api,"p":p,"limit":128,"res":"some","c":c,"head_ok":ok,"toomany":false,"seq":true}));
            }
        }
    }
}

fn offer_flow(t: &mut Tracer, g: &GenHead, p: usize, api: &str) {
    let input = &g.bytes[..p];
    if api == "flow" {
        let mut f = flow_for_offers(g);
        match guarded(|| f.try_response(input)) {
            None => t.ev(json!({"ev":"panic","during":"try_response"})),
            Some(Err(e)) => t.ev(err_event(api, p, 128, &e)),
            Some(Ok((c, None))) => t.ev(json!({"ev":"offer","api":api,"p":p,"limit":128,"res":"none","c":c,"head_ok":true,"toomany":false})),
            Some(Ok((c, Some(r)))) => {
                let ok = r.status().as_u16() == g.status && version_is_10(r.version()) == g.http10 && actual_map(r.headers()) == expected_map(&g.fields);
                t.ev(json!({"ev":"offer","api":api,"p":p,"limit":128,"res":"some","c":c,"head_ok":ok,"toomany":false}));
            }
        }
    } else {
        let mut c0 = call_recv_response(["GET", "POST", "PATCH", "TRACE", "CONNECT", "HEAD"][(g.h + g.fields.len()) % 6]);
        match guarded(|| c0.try_response(input)) {
            None => t.ev(json!({"ev":"panic","during":"Call::try_response"})),
            Some(Err(e)) => t.ev(err_event(api, p, 128, &e)),
            Some(Ok(None)) => t.ev(json!({"ev":"offer","api":api,"p":p,"limit":128,"res":"none","c":0,"head_ok":true,"toomany":false})),
            Some(Ok(Some((c, r)))) => {
                let ok = r.status().as_u16() == g.status && version_is_10(r.version()) == g.http10 && actual_map(r.headers()) == expected_map(&g.fields);
                t.ev(json!({"ev":"offer","api":api,"p":p,"limit":128,"res":"some","c":c,"head_ok":ok,"toomany":false}));
            }
        }
    }
}

pub fn c05(o: &Opts, t: &mut Tracer) -> Value {
    let mut rng = rng_for(o.seed, 0xC05);
    let nheads = if o.quick() { 150 } else { 8000 };
    let mut offers = 0u64;
    for i in 0..nheads {
        let status: u16 = match i % 6 {
            0 => 200,
            1 => 300 + (rng.gen_range(0..100u16)),
            2 => [301u16, 302, 303, 307, 308, 304][rng.gen_range(0..6)],
            3 => rng.gen_range(101..1000),
            4 => [101u16, 199, 204, 404, 500, 999][rng.gen_range(0..6)],
            _ => rng.gen_range(101..600),
        };
        let nfields = match i % 10 {
            0 => 0,
            1 => 1,
            2 => 128,
            3 => 129,
            4 => 130,
            5 => 127,
            _ => rng.gen_range(0..14),
        };
        let loc_at = if (300..400).contains(&status) || i % 7 == 0 {
            if nfields == 0 { None } else { Some([0, nfields / 2, nfields - 1][rng.gen_range(0..3)]) }
        } else {
            None
        };
        let giant = i % 25 == 6 && nfields >= 1 && nfields < 100;
        let ho = HeadOpts { nfields, status, http10: i % 3 == 0, reason: (i % 4) as u8, loc_at: if giant { None } else { loc_at }, request: None, framing: nfields >= 2 && i % 2 == 0 && !giant, wild: false, giant };
        let g = gen_head(&mut rng, &ho);
        selfcheck_head(&g);
        t.case(json!({"ev":"case","comp":"head","lay":g.lay(),"note":format!("status {} fields {}", status, nfields)}));
        t.sig(format!("head/{}/{}/{}/{:?}", status / 100, nfields.min(20), ho.reason, loc_at.map(|x| x.min(3))));
        let api = ["flow", "call"][i % 2];
        let step = if nfields > 100 && o.quick() { 7 } else if nfields > 100 { 3 } else { 1 };
        if giant {
            // a head longer than 64 KiB: selected prefix lengths only
            t.class("offer:giant-head");
            for p in [0usize, 9, 1000, 65535, 65536, 65537, 65538, 69999, g.h - 2, g.h - 1, g.h, g.h + 2] {
                if p <= g.bytes.len() {
                    offer_flow(t, &g, p, api);
                    offers += 1;
                }
            }
            offer_sequence(t, &g, &[65530, 65537, g.h - 1, g.h], api);
            continue;
        }
        let mut p = 0;
        while p <= g.h + 3 {
            offer_flow(t, &g, p, api);
            offers += 1;
            if p < g.h && (300..400).contains(&status) && g.locs.iter().any(|&i| g.ends[i - 1] <= p) {
                t.class("offer:3xx-after-location");
            }
            if p < 8 {
                t.class("offer:shorter-than-version");
            }
            if p + 1 == g.h {
                t.class("offer:h-1");
            }
            // always include the positions next to every structural boundary
            let next = p + step;
            p = if step > 1 && (next > g.h.saturating_sub(6) && p < g.h.saturating_sub(6)) { g.h - 6 } else if p >= g.h.saturating_sub(6) { p + 1 } else { next };
        }
        if nfields > 128 {
            t.class("offer:over-limit");
        }
        // the same receiver sees growing windows: two-step and multi-step sequences ending at or beyond |H|
        let h = g.h;
        let seqs: Vec<Vec<usize>> = vec![
            vec![h - 1, h], vec![h - 2, h + 3], vec![h - 3, h - 1, h], vec![h - 4, h], vec![1, h], vec![0, 7, 8, h],
            vec![g.sl - 1, g.sl, g.sl + 1, h], vec![h / 2, h - 1, h + 2],
        ];
        for (k, sq) in seqs.iter().enumerate() {
            offer_sequence(t, &g, sq, ["flow", "call"][(i + k) % 2]);
            offers += sq.len() as u64;
        }
        if h < 400 {
            let all: Vec<usize> = (0..=h + 1).collect();
            offer_sequence(t, &g, &all, api);
            offers += all.len() as u64;
        }
        t.class("offer:sequence");
        if nfields <= 128 && !(100..200).contains(&status) {
            for (k, cut) in [30usize, 120, 190, 211, 213].iter().enumerate() {
                offer_after_interim(t, &g, ["flow", "call"][(i + k) % 2], *cut);
                offers += 1;
            }
            t.class("offer:after-split-interim");
        }
    }
    // directed: every field name that means something elsewhere in the protocol, with an obs-text value, on several
    // statuses and to receivers of every method — to the head parser they are fields like any other
    let obs: &[u8] = b"/caf\xe9/\x80\xff?x=1";
    for (k, name) in LOADED_NAMES.iter().chain(["Location", "Content-Location", "Link"].iter()).enumerate() {
        for (j, status) in [200u16, 201, 302, 404, 204].iter().enumerate() {
            let g = manual_head(*status, &[("X-Before", b"1"), (name, obs), ("X-After", b"2")]);
            selfcheck_head(&g);
            t.case(json!({"ev":"case","comp":"head","lay":g.lay(),"note":format!("directed {} on {}", name, status)}));
            t.sig(format!("directed/{}/{}", name, status));
            offer_to_method(t, &g, METHODS[(k + j) % 9]);
            offer_flow(t, &g, g.h, "call");
            offers += 2;
        }
    }
    // long field values with one non-ASCII character (Latin-1 byte, 2- and 3-byte UTF-8) at every offset around the lengths at
    // which a value might be cut for display (32, 64, 128, 256): whatever is done with the value, the head is answered
    for base in [32usize, 64, 128, 256] {
        for off in (base - 4)..=(base + 4) {
            for (j, ch) in [&b"\xfc"[..], "\u{fc}".as_bytes(), "\u{20ac}".as_bytes()].iter().enumerate() {
                let mut v = vec![b'a'; off];
                v.extend(*ch);
                v.extend(b"fung 2025.pdf\"");
                v.extend(vec![b'z'; 300 - off.min(290)]);
                let g = manual_head([200u16, 404, 302][j], &[("Content-Disposition", &v[..]), ("Content-Length", b"0")]);
                selfcheck_head(&g);
                t.case(json!({"ev":"case","comp":"head","lay":g.lay(),"note":format!("directed non-ascii at {} ({} bytes)", off, ch.len())}));
                t.sig(format!("directed-nonascii/{}/{}", off, j));
                offer_to_method(t, &g, METHODS[(off + j) % 9]);
                offer_flow(t, &g, g.h, "call");
                offers += 2;
            }
        }
    }
    t.class("offer:non-ascii-at-display-boundaries");
    // framing fields on responses that have no body by rule (2xx to CONNECT, HEAD, 204, 304): still fields of the head
    for (k, method) in ["CONNECT", "HEAD", "GET", "POST", "CONNECT"].iter().enumerate() {
        for status in [200u16, 204, 304, 201, 299] {
            for fields in [&[("Content-Length", &b"5"[..]), ("X-A", &b"b"[..])][..], &[("Transfer-Encoding", &b"chunked"[..])][..], &[("Transfer-Encoding", &b"gzip, chunked"[..]), ("Content-Length", &b"7"[..]), ("Trailer", &b"X-T"[..])][..]] {
                let g = manual_head(status, fields);
                t.case(json!({"ev":"case","comp":"head","lay":g.lay(),"note":format!("directed framing fields, {} {}", method, status)}));
                t.sig(format!("directed-framing/{}/{}/{}", method, status, fields.len()));
                offer_to_method(t, &g, method);
                offers += 1;
                let _ = k;
            }
        }
    }
    t.class("offer:directed");
    json!({"offers": offers})
}

macro_rules! with_n {
    ($n:expr, $f:ident, $input:expr) => {
        match $n {
            0 => $f::<0>($input),
            1 => $f::<1>($input),
            4 => $f::<4>($input),
            _ => $f::<128>($input),
        }
    };
}

pub fn c20(o: &Opts, t: &mut Tracer) -> Value {
    let mut rng = rng_for(o.seed, 0xC20);
    let rounds = if o.quick() { 6 } else { 400 };
    let mut calls = 0u64;
    for round in 0..rounds {
        for &limit in &[0usize, 1, 4, 128] {
            for extra in 0..=(limit.min(4) + 2) {
                // field counts 0..N+2, concentrated around the limit
                let nfields = if limit == 128 { [0, 1, 5, 126, 127, 128, 129, 130][(extra + round) % 8] } else { extra.min(limit + 2) };
                for kind in 0..3 {
                    if limit == 128 && nfields > 100 && o.quick() && (round + kind) % 3 != 0 {
                        continue;
                    }
                    // now and then a head longer than 64 KiB, probed at selected prefix lengths
                    let giant = nfields >= 1 && nfields <= 5 && (round + extra + kind) % 6 == 0;
                    let status: u16 = [200u16, 100, 302, 404, 999, 204, 102, 103, 101, 199, 600, 304][rng.gen_range(0..12)];
                    let request = if kind == 1 { Some(METHODS[rng.gen_range(0..9)]) } else { None };
                    let ho = HeadOpts { nfields, status, http10: rng.gen_bool(0.4), reason: rng.gen_range(0..4), loc_at: if nfields > 0 && rng.gen_bool(0.4) { Some(rng.gen_range(0..nfields)) } else { None }, request, framing: false, wild: true, giant };
                    let g = gen_head(&mut rng, &ho);
                    selfcheck_head(&g);
                    t.case(json!({"ev":"case","comp":"head","lay":g.lay(),"note":format!("limit {} fields {} kind {}", limit, nfields, kind)}));
                    t.sig(format!("c20/{}/{}/{}/{}", limit, nfields, kind, round % 4));
                    let step = if nfields > 100 { 5 } else { 1 };
                    let mut positions: Vec<usize> = vec![];
                    if giant {
                        t.class("c20:giant-head");
                        positions.extend([0usize, 1, 9, 40, 1000, 32768, 65535, 65536, 65537, 65538, 66000, 69999]);
                        positions.extend((g.h - 6)..=(g.h + 2));
                        positions.retain(|&p| p <= g.bytes.len());
                    } else {
                        let mut p = 0;
                        while p <= g.h + 2 {
                            positions.push(p);
                            let next = p + step;
                            p = if step > 1 && next > g.h.saturating_sub(6) && p < g.h.saturating_sub(6) { g.h - 6 } else if p >= g.h.saturating_sub(6) { p + 1 } else { next };
                        }
                    }
                    for &p in &positions {
                        let input = &g.bytes[..p];
                        calls += 1;
                        match kind {
                            0 => {
                                let r = guarded(|| with_n!(limit, try_parse_response, input));
                                match r {
                                    None => t.ev(json!({"ev":"panic","during":"try_parse_response"})),
                                    Some(Err(e)) => t.ev(err_event("presp", p, limit, &e)),
                                    Some(Ok(None)) => t.ev(json!({"ev":"offer","api":"presp","p":p,"limit":limit,"res":"none","c":0,"head_ok":true,"toomany":false})),
                                    Some(Ok(Some((c, r)))) => {
                                        let ok = r.status().as_u16() == g.status && version_is_10(r.version()) == g.http10 && actual_map(r.headers()) == expected_map(&g.fields);
                                        t.ev(json!({"ev":"offer","api":"presp","p":p,"limit":limit,"res":"some","c":c,"head_ok":ok,"toomany":false}));
                                    }
                                }
                            }
                            1 => {
                                let r = guarded(|| with_n!(limit, try_parse_request, input));
                                match r {
                                    None => t.ev(json!({"ev":"panic","during":"try_parse_request"})),
                                    Some(Err(e)) => t.ev(err_event("preq", p, limit, &e)),
                                    Some(Ok(None)) => t.ev(json!({"ev":"offer","api":"preq","p":p,"limit":limit,"res":"none","c":0,"head_ok":true,"toomany":false})),
                                    Some(Ok(Some((c, r)))) => {
                                        let ok = r.method().as_str() == g.method && version_is_10(r.version()) == g.http10 && actual_map(r.headers()) == expected_map(&g.fields);
                                        t.ev(json!({"ev":"offer","api":"preq","p":p,"limit":limit,"res":"some","c":c,"head_ok":ok,"toomany":false}));
                                    }
                                }
                            }
                            _ => {
                                let r = guarded(|| with_n!(limit, try_parse_partial_response, input));
                                match r {
                                    None => t.ev(json!({"ev":"panic","during":"try_parse_partial_response"})),
                                    Some(Err(e)) => t.ev(json!({"ev":"partial","p":p,"limit":limit,"res":"err","nrep":0,"rep_ok":true,"head_ok":true,"err":format!("{:?}", e)})),
                                    Some(Ok(None)) => t.ev(json!({"ev":"partial","p":p,"limit":limit,"res":"none","nrep":0,"rep_ok":true,"head_ok":true})),
                                    Some(Ok(Some(r))) => {
                                        let kc = g.ends.iter().filter(|&&e| e <= p).count();
                                        let exp = expected_map(&g.fields[..kc]);
                                        let act = actual_map(r.headers());
                                        let rep_ok = act.iter().all(|(k, vs)| exp.get(k).map(|e| e.len() >= vs.len() && e[..vs.len()] == vs[..]).unwrap_or(false));
                                        let nrep: usize = act.values().map(|v| v.len()).sum();
                                        let ok = r.status().as_u16() == g.status && version_is_10(r.version()) == g.http10;
                                        if nrep > 0 && p < g.h {
                                            t.class("partial:some-fields");
                                        }
                                        t.ev(json!({"ev":"partial","p":p,"limit":limit,"res":"some","nrep":nrep,"rep_ok":rep_ok,"head_ok":ok}));
                                    }
                                }
                            }
                        }
                    }
                    if nfields > limit {
                        t.class("c20:over-limit");
                    }
                }
            }
        }
    }
    json!({"parser_calls": calls})
}

// ------------------------------------------------------------------------------------------ C06

fn mode_json(m: BodyMode) -> (&'static str, u64) {
    match m {
        BodyMode::NoBody => ("NoBody", 0),
        BodyMode::LengthDelimited(n) => ("Length", n),
        BodyMode::Chunked => ("Chunked", 0),
        BodyMode::CloseDelimited => ("Close", 0),
    }
}

/// one framing cell on a prepared receiver; no event when the head is not answered (incomplete)
fn extra_cell(t: &mut Tracer, mut f: Flow<(), ureq_proto::client::flow::state::RecvResponse>, method: &str, status: u16, cl: &str, clv: u64, te: &str, head: &[u8]) {
    let mut e = json!({"ev":"cell","method":method,"status":status,"http10":false,"cl":cl,"clv":limbs(clv),"te":te,"api":"flow",
                       "res":"none","next":"none","mode":"","moden":limbs(0),"closedelim":false,"interim_ok":true});
    match guarded(|| f.try_response(head)) {
        None => {
            t.ev(json!({"ev":"panic","during":"try_response (framing cell with a history)"}));
            return;
        }
        Some(Err(er)) => {
            e["res"] = json!("err");
            e["err"] = json!(format!("{:?}", er));
        }
        Some(Ok((_, None))) => return,
        Some(Ok((_, Some(_)))) => {
            e["res"] = json!("some");
            match guarded(|| f.proceed()) {
                None => {
                    t.ev(json!({"ev":"panic","during":"RecvResponse::proceed"}));
                    return;
                }
                Some(None) => {}
                Some(Some(RecvResponseResult::RecvBody(b))) => {
                    let (m, n) = mode_json(b.body_mode());
                    e["next"] = json!("RecvBody");
                    e["mode"] = json!(m);
                    e["moden"] = limbs(n);
                }
                Some(Some(RecvResponseResult::Redirect(_))) => e["next"] = json!("Redirect"),
                Some(Some(RecvResponseResult::Cleanup(_))) => e["next"] = json!("Cleanup"),
            }
        }
    }
    t.ev(e);
}

pub fn c06(o: &Opts, t: &mut Tracer) -> Value {
    let mut rng = rng_for(o.seed, 0xC06);
    let statuses: Vec<u16> = if o.quick() {
        let mut v = vec![100u16, 101, 102, 150, 199, 200, 201, 202, 203, 204, 205, 206, 250, 299, 300, 301, 302, 303, 304, 305, 306, 307, 308, 350, 399, 400, 401, 403, 404, 418, 499, 500, 503, 599, 600, 700, 998, 999];
        for _ in 0..22 {
            v.push(rng.gen_range(100..1000));
        }
        v
    } else {
        (100..=999).collect()
    };
    let cls = ["absent", "zero", "n", "huge", "nonnum"];
    let tes = ["absent", "chunked", "mixedcase", "list", "other"];
    let mut cells = 0u64;
    for (mi, method) in METHODS.iter().enumerate() {
        t.case(json!({"ev":"case","comp":"cells","note":format!("method {}", method)}));
        for &status in &statuses {
            for http10 in [false, true] {
                for (ci, cl) in cls.iter().enumerate() {
                    for (ti, te) in tes.iter().enumerate() {
                        let pick = (status as usize + mi + ci + ti) % 4;
                        let (clv_text, clv): (String, u64) = match *cl {
                            "zero" => ("0".into(), 0),
                            "n" => {
                                let v = [1u64, 7, 12345, 4294967296][pick];
                                (v.to_string(), v)
                            }
                            "huge" => {
                                let v = [u64::MAX, u64::MAX - 1, 1u64 << 63, 9999999999999999999][pick];
                                (v.to_string(), v)
                            }
                            "nonnum" => ([["abc", "12a", "-1", "1.5"], ["5, 5", "5,5", "0, 0", "7 7"], ["5;5", "0x10", "1e3", "12,"], ["", " ", "\t", "- 5"]][(status as usize / 3 + mi + ti) % 4][pick].to_string(), 0),
                            _ => (String::new(), 0),
                        };
                        let te_text = match *te {
                            "chunked" => "chunked",
                            "mixedcase" => ["Chunked", "CHUNKED", "chunKED", "cHunked"][pick],
                            "list" => ["gzip, chunked", "gzip,chunked", "deflate , gzip ,chunked", "identity, Chunked"][pick],
                            "other" => [["gzip", "identity", "deflate, gzip", "x-chunked"], ["chunk", "chunked-v2", "gzip,", "chunkedx"],
                                        [", gzip", "c", "chunke", "chunked2, gzip"]][(status as usize / 7 + mi) % 3][pick],
                            _ => "",
                        };
                        let mut head = format!("HTTP/1.{} {} R\r\n", if http10 { 0 } else { 1 }, status);
                        // legal fields of no consequence ahead of the framing fields, some with empty values
                        head.push_str(["", "X-Cache:\r\n", "Vary: \r\nX-Empty:\r\n", "Server: s\r\n", "Upgrade: websocket\r\nConnection: Upgrade\r\n", "Upgrade: h2c\r\n",
                                       // entity fields that describe the content but do not delimit it; a Location that is not plain ASCII
                                       "Content-Range: bytes 0-4/10\r\n", "Content-Type: multipart/byteranges; boundary=x\r\nContent-Range: bytes 5-9/*\r\n",
                                       "Location: /caf\u{e9}/men\u{fc}\r\n", "Content-Location: http://cdn.test/v2\r\nContent-Encoding: gzip\r\nTrailer: X-T\r\n"][(status as usize / 5 + mi + ci + ti) % 10]);
                        let te_first = pick % 2 == 0;
                        if te_first && *te != "absent" {
                            head.push_str(&format!("Transfer-Encoding: {}\r\n", te_text));
                        }
                        if *cl != "absent" {
                            head.push_str(&format!("Content-Length: {}\r\n", clv_text));
                            if *cl == "nonnum" && pick == 3 {
                                // a further, numeric Content-Length line does not heal the first one
                                head.push_str("Content-Length: 5\r\n");
                            }
                        }
                        if !te_first && *te != "absent" {
                            head.push_str(&format!("Transfer-Encoding: {}\r\n", te_text));
                        }
                        // the framing decision must not depend on whether the connection is going to be closed anyway
                        let closing = (status as usize / 2 + mi + ci + 2 * ti) % 5;
                        // ... nor on a promise to keep it open
                        head.push_str(match closing { 4 => "Connection: close\r\n\r\n", 3 => "Connection: keep-alive\r\n\r\n", 2 => "Keep-Alive: timeout=5, max=100\r\nConnection: Keep-Alive\r\n\r\n", _ => "X-Other: 1\r\n\r\n" });
                        if closing != 0 {
                            t.class("cell:closing-connection");
                        }
                        let api = if (status as usize + ci + ti) % 5 == 0 { "call" } else { "flow" };
                        let mut e = json!({"ev":"cell","method":method,"status":status,"http10":http10,"cl":cl,"clv":limbs(clv),"te":te,"api":api,
                                           "res":"none","next":"none","mode":"","moden":limbs(0),"closedelim":false,"interim_ok":true});
                        cells += 1;
                        if api == "flow" {
                            if status == 100 && (ci + ti) % 2 == 0 && *cl != "nonnum" {
                                // an unsolicited 100 handed to the caller, then a redirect on the same receiver: what the flow
                                // noted for the interim response must not stand in for the final one
                                let mut f2 = crate::fx::flow_recv_response_v(method, closing % 4);
                                if let Some(Ok((_, Some(_)))) = guarded(|| f2.try_response(b"HTTP/1.1 100 Continue\r\n\r\n")) {
                                    extra_cell(t, f2, method, [302u16, 307, 301][(mi + ti) % 3], "zero", 0, "absent", format!("HTTP/1.1 {} Moved\r\nLocation: /next\r\nContent-Length: 0\r\n\r\n", [302u16, 307, 301][(mi + ti) % 3]).as_bytes());
                                    t.class("cell:redirect-after-unsolicited-100");
                                }
                            }
                            let mut f = crate::fx::flow_recv_response_v(method, closing % 4);
                            match guarded(|| f.try_response(head.as_bytes())) {
                                None => {
                                    t.ev(json!({"ev":"panic","during":"try_response (framing cell)"}));
                                    continue;
                                }
                                Some(Err(er)) => {
                                    e["res"] = json!("err");
                                    e["err"] = json!(format!("{:?}", er));
                                }
                                Some(Ok((_, None))) => {}
                                Some(Ok((c, Some(_)))) => {
                                    e["res"] = json!("some");
                                    if status == 100 {
                                        let nxt = b"HTTP/1.1 200 OK\r\nContent-Length: 0\r\n\r\n";
                                        let ok = c == head.len() && !f.can_proceed() && matches!(guarded(|| f.try_response(nxt)), Some(Ok((n, Some(r)))) if n == nxt.len() && r.status() == 200);
                                        e["interim_ok"] = json!(ok);
                                    } else {
                                        if (101..200).contains(&status) && *cl != "nonnum" && (status as usize + ci + ti) % 3 == 0 {
                                            // an interim response other than 100 is followed by the final response on the same
                                            // receiver: its framing is decided by ITS head, not by the interim one
                                            let fin: &[u8] = if ti % 2 == 0 { b"HTTP/1.1 200 OK\r\nContent-Length: 5\r\n\r\n" } else { b"HTTP/1.1 200 OK\r\nTransfer-Encoding: chunked\r\n\r\n" };
                                            let (fcl, fte, fclv) = if ti % 2 == 0 { ("n", "absent", 5u64) } else { ("absent", "chunked", 0u64) };
                                            let mut e2 = json!({"ev":"cell","method":method,"status":200,"http10":false,"cl":fcl,"clv":limbs(fclv),"te":fte,"api":"flow",
                                                                "res":"none","next":"none","mode":"","moden":limbs(0),"closedelim":false,"interim_ok":true,"after_interim":status});
                                            match guarded(|| f.try_response(fin)) {
                                                Some(Ok((_, Some(_)))) => {
                                                    e2["res"] = json!("some");
                                                    match guarded(|| f.proceed()) {
                                                        Some(Some(RecvResponseResult::RecvBody(b))) => {
                                                            let (m, n) = mode_json(b.body_mode());
                                                            e2["next"] = json!("RecvBody");
                                                            e2["mode"] = json!(m);
                                                            e2["moden"] = limbs(n);
                                                        }
                                                        Some(Some(RecvResponseResult::Redirect(_))) => e2["next"] = json!("Redirect"),
                                                        Some(Some(RecvResponseResult::Cleanup(_))) => e2["next"] = json!("Cleanup"),
                                                        _ => {}
                                                    }
                                                }
                                                Some(Err(er)) => {
                                                    e2["res"] = json!("err");
                                                    e2["err"] = json!(format!("{:?}", er));
                                                }
                                                _ => {}
                                            }
                                            // the interim cell itself: judged as usual below, from a twin flow
                                            t.class("cell:after-interim");
                                            t.ev(e2);
                                            f = crate::fx::flow_recv_response_v(method, closing % 4);
                                            let _ = guarded(|| f.try_response(head.as_bytes()));
                                        }
                                        match guarded(|| f.proceed()) {
                                            None => {
                                                t.ev(json!({"ev":"panic","during":"RecvResponse::proceed"}));
                                                continue;
                                            }
                                            Some(None) => {}
                                            Some(Some(RecvResponseResult::RecvBody(b))) => {
                                                let (m, n) = mode_json(b.body_mode());
                                                e["next"] = json!("RecvBody");
                                                e["mode"] = json!(m);
                                                e["moden"] = limbs(n);
                                            }
                                            Some(Some(RecvResponseResult::Redirect(_))) => e["next"] = json!("Redirect"),
                                            Some(Some(RecvResponseResult::Cleanup(_))) => e["next"] = json!("Cleanup"),
                                        }
                                    }
                                }
                            }
                        } else {
                            let mut c0 = call_recv_response(method);
                            match guarded(|| c0.try_response(head.as_bytes())) {
                                None => {
                                    t.ev(json!({"ev":"panic","during":"Call::try_response (framing cell)"}));
                                    continue;
                                }
                                Some(Err(er)) => {
                                    e["res"] = json!("err");
                                    e["err"] = json!(format!("{:?}", er));
                                }
                                Some(Ok(None)) => {}
                                Some(Ok(Some(_))) => {
                                    e["res"] = json!("some");
                                    if status != 100 {
                                        match guarded(|| c0.into_body()) {
                                            None => {
                                                t.ev(json!({"ev":"panic","during":"into_body"}));
                                                continue;
                                            }
                                            Some(Ok(None)) => e["next"] = json!("nobody"),
                                            Some(Ok(Some(b))) => {
                                                e["next"] = json!("body");
                                                e["closedelim"] = json!(b.is_close_delimited());
                                            }
                                            Some(Err(_)) => e["next"] = json!("error"),
                                        }
                                    }
                                }
                            }
                        }
                        t.ev(e);
                    }
                }
            }
        }
        t.sig(format!("cells/{}", method));
    }
    // the same decision on receivers with a history
    t.case(json!({"ev":"case","comp":"cells","note":"receivers with a history"}));
    let combos: [(&str, &str, u64, &str, &str); 5] = [("absent", "", 0, "absent", ""), ("n", "5", 5, "absent", ""), ("zero", "0", 0, "absent", ""),
                                                        ("absent", "", 0, "chunked", "chunked"), ("n", "7", 7, "chunked", "Chunked")];
    for &status in &[200u16, 204, 301, 302, 303, 304, 307, 308, 399, 403, 500] {
        for (ki, (cl, clv_text, clv, te, te_text)) in combos.iter().enumerate() {
            let mut fields = String::new();
            if (300..400).contains(&status) {
                fields.push_str("Location: /next\r\n");
            }
            if *cl != "absent" {
                fields.push_str(&format!("Content-Length: {}\r\n", clv_text));
            }
            if *te != "absent" {
                fields.push_str(&format!("Transfer-Encoding: {}\r\n", te_text));
            }
            let head = format!("HTTP/1.1 {} R\r\n{}\r\n", status, fields);
            // (1) the response answers a request that was awaiting 100-continue: the Expect is rejected by this very head
            for method in ["POST", "PUT"] {
                let req = Request::builder().method(method).uri("http://h.test/p").header("expect", "100-continue").header("content-length", "3").body(()).unwrap();
                let f = match guarded(|| {
                    let mut sr = Flow::new(req).unwrap().proceed();
                    let mut buf = vec![0u8; 4096];
                    for _ in 0..400 {
                        if sr.can_proceed() {
                            break;
                        }
                        sr.write(&mut buf).unwrap();
                    }
                    match sr.proceed().unwrap().unwrap() {
                        ureq_proto::client::flow::SendRequestResult::Await100(mut a) => {
                            a.try_read_100(head.as_bytes()).unwrap();
                            match a.proceed().unwrap() {
                                ureq_proto::client::flow::Await100Result::RecvResponse(f) => f,
                                _ => panic!("harness: the refusal did not lead to RecvResponse"),
                            }
                        }
                        _ => panic!("harness: expected Await100"),
                    }
                }) {
                    Some(f) => f,
                    None => {
                        t.ev(json!({"ev":"stuck","during":"reaching the receive state after a rejected Expect"}));
                        continue;
                    }
                };
                extra_cell(t, f, method, status, cl, *clv, te, head.as_bytes());
                cells += 1;
                t.class("cell:after-rejected-expect");
            }
            // (2) a 3xx head that stops after its header fields (no final empty line): IF the code answers it at all
            // (known finding KF1), the framing of the response it returns follows the same rules
            if (300..400).contains(&status) && status != 304 {
                let cut = &head.as_bytes()[..head.len() - 2];
                let f = crate::fx::flow_recv_response_v(["GET", "POST", "DELETE"][ki % 3], ki % 2);
                extra_cell(t, f, ["GET", "POST", "DELETE"][ki % 3], status, cl, *clv, te, cut);
                cells += 1;
            }
        }
    }
    for st in &statuses {
        t.sig(format!("status/{}", st));
    }
    json!({"cells": cells})
}
