//! Shared plumbing: sharded ndjson tracer, panic capture, limbs, seeded rng.
use serde_json::{json, Value};
use std::collections::{BTreeMap, HashSet};
use std::fs::File;
use std::io::{BufWriter, Write};
use std::panic::{catch_unwind, AssertUnwindSafe};
use std::path::{Path, PathBuf};

pub use rand::rngs::StdRng;
pub use rand::{Rng, SeedableRng};

pub static HEARTBEAT: std::sync::atomic::AtomicU64 = std::sync::atomic::AtomicU64::new(0);
pub static CURRENT_CASE: std::sync::Mutex<String> = std::sync::Mutex::new(String::new());

/// A hang inside a call of the library under test cannot be caught in-process: a watchdog thread
/// notices that no event was logged for `secs` seconds, records the case that was running and exits 3.
pub fn start_watchdog(dir: PathBuf, secs: u64) {
    std::thread::spawn(move || {
        let mut last = 0;
        let mut still = 0;
        loop {
            std::thread::sleep(std::time::Duration::from_secs(2));
            let now = HEARTBEAT.load(std::sync::atomic::Ordering::Relaxed);
            if now == last {
                still += 2;
            } else {
                still = 0;
                last = now;
            }
            if still >= secs {
                let case = CURRENT_CASE.lock().map(|c| c.clone()).unwrap_or_default();
                let _ = std::fs::write(dir.join("hang.json"), format!("{{\"hang\":true,\"no_progress_s\":{},\"case\":{}}}\n", still, if case.is_empty() { "null".to_string() } else { case }));
                std::process::exit(3);
            }
        }
    });
}

pub struct Tracer {
    dir: PathBuf,
    shards: Vec<BufWriter<File>>,
    cur: usize,
    pub cases: u64,
    pub events: u64,
    kinds: BTreeMap<String, u64>,
    classes: BTreeMap<String, u64>,
    sigs: HashSet<String>,
    samples: Vec<Vec<Value>>,
    sample_open: bool,
    prop: String,
    only: Option<String>,
    muted: bool,
    events_all: u64,
    events_at_case_start: u64,
    pub empty_cases: u64,
}

impl Tracer {
    pub fn new(dir: &Path, nshards: usize, prop: &str, only: Option<String>) -> Tracer {
        std::fs::create_dir_all(dir).unwrap();
        let shards = (0..nshards)
            .map(|i| {
                BufWriter::with_capacity(
                    1 << 20,
                    File::create(dir.join(format!("trace-{:02}.ndjson", i))).unwrap(),
                )
            })
            .collect();
        Tracer {
            dir: dir.to_path_buf(),
            shards,
            cur: 0,
            cases: 0,
            events_all: 0,
            events_at_case_start: 0,
            empty_cases: 0,
            events: 0,
            kinds: BTreeMap::new(),
            classes: BTreeMap::new(),
            sigs: HashSet::new(),
            samples: vec![],
            sample_open: false,
            prop: prop.to_string(),
            muted: only.is_some(),
            only,
        }
    }

    pub fn prop(&self) -> &str {
        &self.prop
    }

    /// Start a new case: picks the next shard round-robin. `v` must be an object with "ev":"case".
    pub fn case(&mut self, mut v: Value) {
        // a case that logged nothing but its own header drove nothing: counted, so that lost coverage shows in the evidence
        if self.cases > 0 && self.events_at_case_start + 1 >= self.events_all {
            self.empty_cases += 1;
        }
        self.events_at_case_start = self.events_all;
        self.cases += 1;
        self.cur = (self.cases as usize) % self.shards.len();
        let id = format!("{}-{:06}", self.prop.to_lowercase(), self.cases);
        if let Some(o) = &self.only {
            self.muted = *o != id;
        }
        v["id"] = json!(id);
        v["prop"] = json!(self.prop);
        if let Ok(mut c) = CURRENT_CASE.lock() {
            *c = v.to_string();
        }
        self.sample_open = self.samples.len() < 3;
        if self.sample_open {
            self.samples.push(vec![]);
        }
        self.ev(v);
    }

    pub fn ev(&mut self, v: Value) {
        HEARTBEAT.fetch_add(1, std::sync::atomic::Ordering::Relaxed);
        self.events_all += 1;
        if self.muted {
            return;
        }
        self.events += 1;
        if let Some(k) = v.get("ev").and_then(|k| k.as_str()) {
            *self.kinds.entry(k.to_string()).or_insert(0) += 1;
        }
        if self.sample_open {
            let s = self.samples.last_mut().unwrap();
            if s.len() < 12 {
                s.push(v.clone());
            }
        }
        let w = &mut self.shards[self.cur];
        serde_json::to_writer(&mut *w, &v).unwrap();
        w.write_all(b"\n").unwrap();
    }

    /// Count an attribute class that the property's vacuity guard wants exercised.
    pub fn class(&mut self, c: &str) {
        *self.classes.entry(c.to_string()).or_insert(0) += 1;
    }

    /// Register the signature of a distinct, non-trivial case (configuration x schedule class).
    pub fn sig(&mut self, s: String) {
        self.sigs.insert(s);
    }

    pub fn finish(mut self, extra: Value) {
        for w in self.shards.iter_mut() {
            w.flush().unwrap();
        }
        let summary = json!({
            "prop": self.prop,
            "cases": self.cases,
            "events": self.events,
            "kinds": self.kinds,
            "classes": self.classes,
            "distinct": self.sigs.len(),
            "empty_cases": self.empty_cases,
            "samples": self.samples,
            "extra": extra,
        });
        std::fs::write(
            self.dir.join("summary.json"),
            serde_json::to_vec_pretty(&summary).unwrap(),
        )
        .unwrap();
    }
}

/// Run a call of the library under test; a panic is data (None), never a crash of the harness.
pub fn guarded<T>(f: impl FnOnce() -> T) -> Option<T> {
    catch_unwind(AssertUnwindSafe(f)).ok()
}

pub fn silence_panics() {
    std::panic::set_hook(Box::new(|_| {}));
}

/// u64 as three 24-bit limbs, most significant first (TLC integers are 32-bit).
pub fn limbs(v: u64) -> Value {
    json!([(v >> 48) & 0xff_ffff, (v >> 24) & 0xff_ffff, v & 0xff_ffff])
}

pub fn rng_for(seed: u64, salt: u64) -> StdRng {
    StdRng::seed_from_u64(seed.wrapping_mul(0x9E37_79B9_7F4A_7C15).wrapping_add(salt))
}

/// Deterministic pseudo-random payload bytes (content depends on the offset so that
/// shifted or duplicated copies are detected by slice comparison).
pub fn payload(len: usize, salt: u64) -> Vec<u8> {
    let mut x = salt.wrapping_mul(0x9E37_79B9_7F4A_7C15) | 1;
    (0..len)
        .map(|_| {
            x ^= x << 13;
            x ^= x >> 7;
            x ^= x << 17;
            (x >> 24) as u8
        })
        .collect()
}

pub fn hex(b: &[u8]) -> String {
    let mut s = String::with_capacity(b.len() * 2);
    for x in b {
        s.push_str(&format!("{:02x}", x));
    }
    s
}

pub struct Opts {
    pub tier: String,
    pub seed: u64,
    pub out: PathBuf,
    pub shards: usize,
    pub scripts: Option<PathBuf>,
    pub only: Option<String>,
}

impl Opts {
    pub fn quick(&self) -> bool {
        self.tier != "thorough"
    }
}
