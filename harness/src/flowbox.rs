//! A Flow held in an enum over its typestates, with one logging method per public call.
//! Used by the model-script interpreter (replay) and by the C09/C10/C11/C12/C01 drivers.
use crate::util::*;
use serde_json::{json, Value};
use ureq_proto::client::flow::state::*;
use ureq_proto::client::flow::{Await100Result, Flow, RecvBodyResult, RecvResponseResult, SendRequestResult};
use ureq_proto::http::{Method, Request, Version};
use ureq_proto::BodyMode;

pub enum FlowBox {
    Prepare(Flow<(), Prepare>),
    SendRequest(Flow<(), SendRequest>),
    Await100(Flow<(), Await100>),
    SendBody(Flow<(), SendBody>),
    RecvResponse(Flow<(), RecvResponse>),
    RecvBody(Flow<(), RecvBody>),
    Redirect(Flow<(), Redirect>),
    Cleanup(Flow<(), Cleanup>),
    Dead,
}

impl FlowBox {
    pub fn name(&self) -> &'static str {
        match self {
            FlowBox::Prepare(_) => "Prepare",
            FlowBox::SendRequest(_) => "SendRequest",
            FlowBox::Await100(_) => "Await100",
            FlowBox::SendBody(_) => "SendBody",
            FlowBox::RecvResponse(_) => "RecvResponse",
            FlowBox::RecvBody(_) => "RecvBody",
            FlowBox::Redirect(_) => "Redirect",
            FlowBox::Cleanup(_) => "Cleanup",
            FlowBox::Dead => "Dead",
        }
    }
}

#[derive(Clone, Debug)]
pub struct RqCfg {
    pub method: String,
    pub ver10: bool,
    pub expect: bool,
    pub connclose: bool,
    pub despite: bool,
    pub framing: String, // default | cl0 | cl2 | chunked
    pub conn_other: Option<&'static str>, // extra request Connection value (keep-alive, ...) for C10
    /// a further Expect line (an extension expectation) ahead of 100-continue
    pub expect_extra: bool,
}

thread_local! {
    /// the request carries the headers of an ordinary form / API post (credentials, cookie, content description)
    pub static LOGIN_HEADERS: std::cell::Cell<bool> = std::cell::Cell::new(false);
    /// the next Sim declares the request's body framing in the prepare state (Flow::header) instead of on the request object
    pub static FRAMING_IN_PREPARE: std::cell::Cell<bool> = std::cell::Cell::new(false);
    /// the request carries header names with more than one value (accept, cookie, via on two lines each)
    pub static REPEATED_HEADERS: std::cell::Cell<bool> = std::cell::Cell::new(false);
}

impl RqCfg {
    pub fn json(&self) -> Value {
        let cln: i64 = match self.framing.as_str() {
            "cl0" => 0,
            "cl2" => 2,
            f if f.starts_with("cl:") => f[3..].parse().unwrap_or(-1),
            _ => -1,
        };
        json!({"method": self.method, "ver10": self.ver10, "expect": self.expect, "connclose": self.connclose,
               "despite": self.despite, "framing": self.framing, "cln": cln})
    }
    pub fn request(&self) -> Request<()> {
        let mut b = Request::builder()
            .method(Method::from_bytes(self.method.as_bytes()).unwrap())
            .uri("http://h.test/res/item?id=7")
            .version(if self.ver10 { Version::HTTP_10 } else { Version::HTTP_11 });
        if let Some(c) = self.conn_other {
            b = b.header("connection", c);
        }
        if self.connclose {
            b = b.header("connection", "close");
        }
        if self.expect {
            if self.expect_extra {
                b = b.header("expect", "x-extension=1");
            }
            b = b.header("expect", "100-continue");
        }
        match if FRAMING_IN_PREPARE.with(|x| x.get()) { "" } else { self.framing.as_str() } {
            "cl0" => b = b.header("content-length", "0"),
            "cl2" => b = b.header("content-length", "2"),
            "chunked" => b = b.header("transfer-encoding", "chunked"),
            f if f.starts_with("cl:") => b = b.header("content-length", &f[3..]),
            _ => {}
        }
        if REPEATED_HEADERS.with(|x| x.get()) {
            b = b.header("accept", "text/html").header("cookie", "a=1").header("accept", "application/json;q=0.9").header("via", "1.1 p1").header("cookie", "b=2").header("via", "1.1 p2");
        }
        b = b.header("x-note", "verif");
        if LOGIN_HEADERS.with(|x| x.get()) {
            b = b.header("authorization", "Bearer t0ken").header("cookie", "sid=1").header("content-type", "application/x-www-form-urlencoded")
                .header("content-language", "en").header("content-encoding", "identity").header("content-location", "/form");
        }
        b.body(()).unwrap()
    }
    pub fn reqline_len(&self) -> usize {
        self.method.len() + 1 + "/res/item?id=7".len() + 1 + 8 + 2
    }
}

#[derive(Clone, Debug)]
pub struct FinCfg {
    pub status: u16,
    pub resp10: bool,
    pub cl: String, // absent | zero | n
    pub te: String, // absent | chunked
    pub conn: String, // absent | close | keepalive | two | upper (Connection: Close) ...
    pub loc: Option<String>,
    pub reason: String,
}

thread_local! {
    /// extra header lines put first into every final head built by FinCfg::head (set by drivers)
    pub static EXTRA_HEAD_LINES: std::cell::RefCell<String> = std::cell::RefCell::new(String::new());
}

impl FinCfg {
    pub fn head(&self) -> Vec<u8> {
        let mut h = format!("HTTP/1.{} {} {}\r\n", if self.resp10 { 0 } else { 1 }, self.status, self.reason);
        EXTRA_HEAD_LINES.with(|x| h.push_str(&x.borrow()));
        if let Some(l) = &self.loc {
            h.push_str(&format!("Location: {}\r\n", l));
        }
        match self.cl.as_str() {
            "zero" => h.push_str("Content-Length: 0\r\n"),
            "n" => h.push_str("Content-Length: 2\r\n"),
            _ => {}
        }
        if self.te == "chunked" {
            h.push_str("Transfer-Encoding: chunked\r\n");
        }
        match self.conn.as_str() {
            "close" => h.push_str("Connection: close\r\n"),
            "keepalive" => h.push_str("Connection: keep-alive\r\n"),
            "two" => h.push_str("Connection: keep-alive\r\nConnection: close\r\n"),
            // fields that merely look like it: they are not "Connection: close"
            "proxyclose" => h.push_str("Proxy-Connection: close\r\nX-Connection: close\r\nKeep-Alive: close\r\n"),
            _ => {}
        }
        h.push_str("\r\n");
        h.into_bytes()
    }
    pub fn connclose(&self) -> bool {
        self.conn == "close" || self.conn == "two"
    }
    pub fn cell(&self, method: &str) -> Value {
        json!({"method": method, "status": self.status, "http10": self.resp10, "cl": self.cl,
               "clv": limbs(if self.cl == "n" { 2 } else { 0 }), "te": self.te})
    }
}

#[derive(Clone, Debug)]
pub struct EarlyMsg {
    pub kind: String, // 100 | refuseBare | refuseFields | refuseFieldsClose
    pub bytes: Vec<u8>,
    pub sl: usize,
    pub first_field_end: usize,
}

impl EarlyMsg {
    pub fn new(kind: &str, variant: usize) -> EarlyMsg {
        let text: String = match kind {
            "100" => ["HTTP/1.1 100 Continue\r\n\r\n", "HTTP/1.1 100 \r\n\r\n", "HTTP/1.1 100 Please Go On With The Body Now\r\n\r\n", "HTTP/1.0 100 Continue\r\n\r\n"][variant % 4].into(),
            "refuseBare" => ["HTTP/1.1 403 Forbidden\r\n\r\n", "HTTP/1.1 417 Expectation Failed\r\n\r\n", "HTTP/1.1 200 OK\r\n\r\n",
                             "HTTP/1.1 102 Processing\r\n\r\n", "HTTP/1.1 199 \r\n\r\n", "HTTP/1.1 101 Switching Protocols\r\n\r\n",
                             // no reason phrase and no space after the code: not what the grammar says, but what servers send
                             "HTTP/1.1 403\r\n\r\n", "HTTP/1.0 503 \r\n\r\n",
                             // statuses beyond the registered classes are statuses too
                             "HTTP/1.1 999 Request denied\r\n\r\n", "HTTP/1.1 600 Custom\r\n\r\n"][variant % 10].into(),
            "refuseFields" => ["HTTP/1.1 403 Forbidden\r\nX-A: b\r\nContent-Length: 0\r\n\r\n", "HTTP/1.1 413 Too Large\r\nContent-Length: 0\r\nX-B: c\r\n\r\n",
                               "HTTP/1.1 403 Forbidden\r\nConnection: keep-alive\r\nContent-Length: 0\r\n\r\n", "HTTP/1.0 401 No\r\nConnection: Keep-Alive\r\nContent-Length: 0\r\n\r\n",
                               // everyday refusals whose first field line ends well beyond 64 bytes
                               "HTTP/1.1 417 Expectation Failed\r\nDate: Mon, 27 Jul 2009 12:28:53 GMT\r\nContent-Length: 0\r\n\r\n",
                               "HTTP/1.1 401 Unauthorized\r\nWWW-Authenticate: Basic realm=\"a realm with a rather long descriptive name\", charset=\"UTF-8\"\r\nContent-Length: 0\r\n\r\n",
                               "HTTP/1.1 500 Internal Server Error\r\nContent-Type: text/plain; charset=utf-8\r\nContent-Length: 0\r\n\r\n",
                               "HTTP/1.1 999 Request denied\r\nContent-Length: 0\r\n\r\n", "HTTP/1.1 302 Found\r\nLocation: /login\r\nContent-Length: 0\r\n\r\n",
                               // what a CDN or a proxy sends: a couple of dozen fields
                               "HTTP/1.1 403 Forbidden\r\nDate: d\r\nServer: s\r\nVia: v\r\nX-Cache: c\r\nX-Id: 1\r\nAge: 0\r\nVary: a\r\nEtag: e\r\nX-A: 1\r\nX-B: 2\r\nX-C: 3\r\nX-D: 4\r\nX-E: 5\r\nX-F: 6\r\nX-G: 7\r\nX-H: 8\r\nX-I: 9\r\nX-J: 10\r\nX-K: 11\r\nX-L: 12\r\nContent-Length: 0\r\n\r\n"][variant % 10].into(),
            _ => ["HTTP/1.1 403 Forbidden\r\nConnection: close\r\nX-A: b\r\n\r\n", "HTTP/1.0 403 Forbidden\r\nConnection: close\r\nX-A: b\r\n\r\n"][variant % 2].into(),
        };
        // now and then the server ends its lines with a bare LF (outside the grammar, accepted by common parsers)
        let text = if variant % 7 == 5 && kind != "refuseFieldsClose" { text.replace("\r\n", "\n") } else { text };
        let bytes = text.into_bytes();
        let sl = bytes.iter().position(|&c| c == b'\n').unwrap() + 1;
        let first_field_end = if bytes.len() > sl + 2 { sl + bytes[sl..].iter().position(|&c| c == b'\n').unwrap() + 1 } else { sl };
        EarlyMsg { kind: kind.into(), bytes, sl, first_field_end }
    }
    pub fn is_refusal(&self) -> bool {
        self.kind != "100"
    }
    /// a status line the grammar does not allow (no space after the status code) that parsers commonly accept
    pub fn lenient(&self) -> bool {
        self.bytes.get(12) == Some(&b'\r') || !self.bytes.windows(2).any(|w| w == b"\r\n")
    }
    /// the final-response configuration that a refusal message is
    pub fn fin(&self) -> FinCfg {
        let text = String::from_utf8_lossy(&self.bytes).to_string();
        let status: u16 = text[9..12].parse().unwrap();
        FinCfg {
            status,
            resp10: text.starts_with("HTTP/1.0"),
            cl: if text.contains("Content-Length: 0") { "zero".into() } else { "absent".into() },
            te: "absent".into(),
            conn: if text.contains("Connection: close") { "close".into() } else if text.to_ascii_lowercase().contains("connection: keep-alive") { "keepalive".into() } else { "absent".into() },
            loc: text.find("Location: ").map(|i| text[i + 10..].split(|c| c == '\r' || c == '\n').next().unwrap_or("").to_string()),
            reason: String::new(),
        }
    }
    /// input bytes of a class; `v` selects among the members of the class
    pub fn input(&self, cls: &str, v: usize) -> Vec<u8> {
        let b = &self.bytes;
        let n = match cls {
            "nothing" => 0,
            "inStatusLine" => 1 + v % (self.sl - 1),
            "afterStatusLine" => (self.sl + if !self.is_refusal() || self.first_field_end == self.sl { v % 2 } else { 0 }).min(b.len() - 1),
            "bare100" if v % 5 == 3 => {
                // the interim response with the first bytes of what follows already behind it ("consumed exactly")
                let mut w = b.clone();
                w.extend(&b"HTTP/1.1 200 OK\r\nContent-Length: 0\r\n\r\n"[..(3 + v % 35)]);
                return w;
            }
            "bare100" | "bareOther" | "otherComplete" => b.len(),
            "otherInFields" => self.sl + 1 + v % (self.first_field_end - self.sl - 1),
            "otherFieldLine" => self.first_field_end + v % (b.len() - self.first_field_end),
            _ => 0,
        };
        b[..n.min(b.len())].to_vec()
    }
}

pub fn mode_name(m: BodyMode) -> &'static str {
    match m {
        BodyMode::NoBody => "NoBody",
        BodyMode::LengthDelimited(_) => "Length",
        BodyMode::Chunked => "Chunked",
        BodyMode::CloseDelimited => "Close",
    }
}

pub struct Sim {
    pub fb: FlowBox,
    pub rq: RqCfg,
    pub early: Option<EarlyMsg>,
    pub took100: bool,
    pub final_seen: bool,
    pub body: Vec<u8>,
    pub bpos: usize,
    pub rstep: u32,
    pub v: usize, // variant selector for class members
    pub calls: u64,
}

fn ev_call(t: &mut Tracer, st: &str, op: &str, mut v: Value) {
    v["ev"] = json!("call");
    v["st"] = json!(st);
    v["op"] = json!(op);
    t.ev(v);
}

impl Sim {
    pub fn new(t: &mut Tracer, rq: RqCfg, early: Option<EarlyMsg>, v: usize, note: &str) -> Option<Sim> {
        let prep = FRAMING_IN_PREPARE.with(|x| x.get()) && rq.framing != "default";
        let built = guarded(|| Flow::new(rq.request()));
        FRAMING_IN_PREPARE.with(|x| x.set(false));
        if REPEATED_HEADERS.with(|x| x.replace(false)) {
            t.class("flow:repeated-header-names");
        }
        let mut f = built?.ok()?;
        if prep {
            // the way ureq itself declares the framing: on the flow, after looking at the body it was given
            let r = match rq.framing.as_str() {
                "cl0" => guarded(|| f.header("content-length", "0")),
                "cl2" => guarded(|| f.header("content-length", "2")),
                "chunked" => guarded(|| f.header("transfer-encoding", "chunked")),
                fr if fr.starts_with("cl:") => guarded(|| f.header("content-length", &fr[3..])),
                _ => Some(Ok(())),
            };
            r?.ok()?;
            t.class("flow:framing-declared-in-prepare");
        }
        let mut cfg = rq.json();
        cfg["prep"] = json!(prep);
        t.case(json!({"ev":"case","comp":"flow","rq":{"method":rq.method,"ver10":rq.ver10,"expect":rq.expect,"connclose":rq.connclose},
                      "cfg": cfg, "early": early.as_ref().map(|e| e.kind.clone()).unwrap_or_else(|| "none".into()), "note": note}));
        Some(Sim { fb: FlowBox::Prepare(f), rq, early, took100: false, final_seen: false, body: vec![], bpos: 0, rstep: 0, v, calls: 0 })
    }

    pub fn alive(&self) -> bool {
        !matches!(self.fb, FlowBox::Dead)
    }

    fn panic(&mut self, t: &mut Tracer, during: &str) {
        t.ev(json!({"ev":"panic","during":during,"st":self.fb.name()}));
        self.fb = FlowBox::Dead;
    }

    pub fn op_despite(&mut self, t: &mut Tracer) {
        if let FlowBox::Prepare(f) = &mut self.fb {
            if guarded(|| f.send_body_despite_method()).is_none() {
                return self.panic(t, "send_body_despite_method");
            }
            ev_call(t, "Prepare", "despite", json!({}));
        }
    }

    pub fn op_can_proceed(&mut self, t: &mut Tracer) {
        let st = self.fb.name();
        let r = match &self.fb {
            FlowBox::SendRequest(f) => guarded(|| f.can_proceed()),
            FlowBox::SendBody(f) => guarded(|| f.can_proceed()),
            FlowBox::RecvResponse(f) => guarded(|| f.can_proceed()),
            FlowBox::RecvBody(f) => guarded(|| f.can_proceed()),
            _ => return,
        };
        match r {
            Some(v) => ev_call(t, st, "can_proceed", json!({"val": v})),
            None => self.panic(t, "can_proceed"),
        }
    }

    /// proceed() with the readiness query evaluated just before
    pub fn op_proceed(&mut self, t: &mut Tracer) {
        let st = self.fb.name();
        self.calls += 1;
        let fb = std::mem::replace(&mut self.fb, FlowBox::Dead);
        let mut body_left = false;
        let (ready, next): (Option<bool>, Option<Result<FlowBox, &'static str>>) = match fb {
            FlowBox::Prepare(f) => (Some(true), guarded(|| Ok(FlowBox::SendRequest(f.proceed())))),
            FlowBox::SendRequest(f) => {
                let r = guarded(|| f.can_proceed());
                (r, if r.is_none() { None } else {
                    guarded(|| match f.proceed() {
                        Ok(Some(SendRequestResult::Await100(x))) => Ok(FlowBox::Await100(x)),
                        Ok(Some(SendRequestResult::SendBody(x))) => Ok(FlowBox::SendBody(x)),
                        Ok(Some(SendRequestResult::RecvResponse(x))) => Ok(FlowBox::RecvResponse(x)),
                        Ok(None) => Err("none"),
                        Err(_) => Err("err"),
                    })
                })
            }
            FlowBox::Await100(f) => (Some(true), guarded(|| match f.proceed() {
                Ok(Await100Result::SendBody(x)) => Ok(FlowBox::SendBody(x)),
                Ok(Await100Result::RecvResponse(x)) => Ok(FlowBox::RecvResponse(x)),
                Err(_) => Err("err"),
            })),
            FlowBox::SendBody(f) => {
                let r = guarded(|| f.can_proceed());
                (r, if r.is_none() { None } else {
                    guarded(|| match f.proceed() {
                        Some(x) => Ok(FlowBox::RecvResponse(x)),
                        None => Err("none"),
                    })
                })
            }
            FlowBox::RecvResponse(f) => {
                let r = guarded(|| f.can_proceed());
                (r, if r.is_none() { None } else {
                    guarded(|| match f.proceed() {
                        Some(RecvResponseResult::RecvBody(x)) => Ok(FlowBox::RecvBody(x)),
                        Some(RecvResponseResult::Redirect(x)) => Ok(FlowBox::Redirect(x)),
                        Some(RecvResponseResult::Cleanup(x)) => Ok(FlowBox::Cleanup(x)),
                        None => Err("none"),
                    })
                })
            }
            FlowBox::RecvBody(f) => {
                let r = guarded(|| f.can_proceed());
                // bytes of a delimited body that the caller has not read yet stay on the connection
                let is_close = guarded(|| matches!(f.body_mode(), BodyMode::CloseDelimited)).unwrap_or(true);
                body_left = !is_close && self.bpos + 17 < self.body.len();
                (r, if r.is_none() { None } else {
                    guarded(|| match f.proceed() {
                        Some(RecvBodyResult::Redirect(x)) => Ok(FlowBox::Redirect(x)),
                        Some(RecvBodyResult::Cleanup(x)) => Ok(FlowBox::Cleanup(x)),
                        None => Err("none"),
                    })
                })
            }
            FlowBox::Redirect(f) => (Some(true), guarded(|| Ok(FlowBox::Cleanup(f.proceed())))),
            other => {
                self.fb = other;
                return;
            }
        };
        match (ready, next) {
            (Some(r), Some(Ok(nb))) => {
                ev_call(t, st, "proceed", json!({"ready": r, "res": nb.name(), "body_left": body_left}));
                if body_left {
                    t.class("proceed:body-left-on-the-connection");
                }
                if let FlowBox::RecvBody(f) = &nb {
                    // the body the server would now send, by what the flow says it expects
                    let tail = b"HTTP/1.1 200 OK\r\n";
                    self.body = match f.body_mode() {
                        BodyMode::LengthDelimited(n) => {
                            let mut b = payload(n.min(4096) as usize, 9);
                            b.extend(tail);
                            b
                        }
                        BodyMode::Chunked => {
                            let mut b = b"2;x\r\nab\r\n1\r\nc\r\n0\r\nt: v\r\n\r\n".to_vec();
                            b.extend(tail);
                            b
                        }
                        _ => b"close-delimited-data".to_vec(),
                    };
                    self.bpos = 0;
                    self.rstep = 0;
                }
                self.fb = nb;
            }
            (Some(r), Some(Err(e))) => {
                ev_call(t, st, "proceed", json!({"ready": r, "res": e}));
                self.fb = FlowBox::Dead;
            }
            _ => self.panic(t, "proceed"),
        }
    }

    pub fn op_sr_write(&mut self, t: &mut Tracer, big: bool) {
        if !big {
            let len = self.rq.reqline_len();
            self.sr_write_len(t, len);
            return;
        }
        // "a big buffer": the model's step completes the head; an implementation may need several calls
        for _ in 0..400 {
            self.sr_write_len(t, 1 << 16);
            let done = match &self.fb {
                FlowBox::SendRequest(f) => guarded(|| f.can_proceed()).unwrap_or(true),
                _ => true,
            };
            if done {
                break;
            }
        }
    }

    pub fn sr_write_len(&mut self, t: &mut Tracer, len: usize) -> Option<Vec<u8>> {
        self.calls += 1;
        if let FlowBox::SendRequest(f) = &mut self.fb {
            let mut out = vec![0u8; len];
            let r = guarded(|| f.write(&mut out));
            let ready = guarded(|| f.can_proceed());
            match (r, ready) {
                (Some(Ok(n)), Some(rd)) => {
                    ev_call(t, "SendRequest", "sr_write", json!({"res":"ok","n":n,"ready":rd,"outl":len}));
                    return Some(out[..n.min(len)].to_vec());
                }
                (Some(Err(e)), Some(rd)) => {
                    let overflow = matches!(e, ureq_proto::Error::OutputOverflow);
                    ev_call(t, "SendRequest", "sr_write", json!({"res":"err","n":0,"ready":rd,"outl":len,"overflow":overflow,"err":format!("{:?}", e)}));
                    return Some(vec![]);
                }
                _ => self.panic(t, "head write"),
            }
        }
        None
    }

    pub fn op_try_read_100(&mut self, t: &mut Tracer, cls: &str) {
        self.calls += 1;
        let early = match &self.early {
            Some(e) => e.clone(),
            None => EarlyMsg { kind: "none".into(), bytes: vec![], sl: 1, first_field_end: 1 },
        };
        let input = early.input(cls, self.v);
        self.try_read_100_bytes(t, cls, &input, early.bytes.len());
    }

    pub fn try_read_100_bytes(&mut self, t: &mut Tracer, cls: &str, input: &[u8], mlen: usize) -> usize {
        if let FlowBox::Await100(f) = &mut self.fb {
            let r = guarded(|| f.try_read_100(input));
            let keep = guarded(|| f.can_keep_await_100());
            match (r, keep) {
                (Some(Ok(n)), Some(k)) => {
                    let lenient = self.early.as_ref().map(|e| e.lenient()).unwrap_or(false);
                    ev_call(t, "Await100", "try_read_100", json!({"cls":cls,"mlen":mlen,"res":"ok","n":n,"keep":k,"w":input.len(),"lenient":lenient}));
                    if cls == "bare100" && n > 0 {
                        self.took100 = true;
                    }
                    return n;
                }
                (Some(Err(e)), Some(k)) => {
                    let lenient = self.early.as_ref().map(|e| e.lenient()).unwrap_or(false);
                    ev_call(t, "Await100", "try_read_100", json!({"cls":cls,"mlen":mlen,"res":"err","n":0,"keep":k,"w":input.len(),"err":format!("{:?}", e),"lenient":lenient}));
                }
                _ => self.panic(t, "try_read_100"),
            }
        }
        0
    }

    pub fn op_sb_write(&mut self, t: &mut Tracer, finish: bool, big: bool) {
        self.calls += 1;
        if let FlowBox::SendBody(f) = &mut self.fb {
            let chunked = match guarded(|| f.is_chunked()) {
                Some(c) => c,
                None => return self.panic(t, "is_chunked"),
            };
            let data = b"ab";
            let (input, outl): (&[u8], usize) = if finish {
                (&[], if big { 64 } else { 3 })
            } else if chunked {
                if big { (&data[..], 64) } else { (&data[..], 6) }
            } else if big {
                (&data[..], 64)
            } else {
                (&data[..1], 1)
            };
            let mut out = vec![0u8; outl];
            let r = guarded(|| f.write(input, &mut out));
            let ready = guarded(|| f.can_proceed());
            match (r, ready) {
                (Some(Ok((c, p))), Some(rd)) => ev_call(t, "SendBody", "sb_write", json!({"res":"ok","c":c,"p":p,"ready":rd,"inl":input.len(),"outl":outl,"chunked":chunked})),
                (Some(Err(e)), Some(rd)) => ev_call(t, "SendBody", "sb_write", json!({"res":"err","c":0,"p":0,"ready":rd,"inl":input.len(),"outl":outl,"chunked":chunked,"err":format!("{:?}", e)})),
                _ => self.panic(t, "body write"),
            }
        }
    }

    /// consume_direct_write(amt) in the send-body state (a caller that hands body bytes to the transport itself)
    pub fn op_sb_direct(&mut self, t: &mut Tracer, amt: usize) {
        self.calls += 1;
        if let FlowBox::SendBody(f) = &mut self.fb {
            let r = guarded(|| f.consume_direct_write(amt));
            let ready = guarded(|| f.can_proceed());
            match (r, ready) {
                (Some(Ok(())), Some(rd)) => ev_call(t, "SendBody", "sb_direct", json!({"res":"ok","amt":amt,"ready":rd})),
                (Some(Err(e)), Some(rd)) => ev_call(t, "SendBody", "sb_direct", json!({"res":"err","amt":amt,"ready":rd,"err":format!("{:?}", e)})),
                _ => self.panic(t, "consume_direct_write"),
            }
            t.class("flow:direct-write");
        }
    }

    /// kind: partial | late100 | final. `fin` is the final response the server sends (ignored for refusals).
    pub fn op_try_response(&mut self, t: &mut Tracer, kind: &str, fin: Option<&FinCfg>) {
        self.calls += 1;
        let pending100 = self.early.as_ref().map(|e| !e.is_refusal()).unwrap_or(false) && !self.took100;
        let refusal = self.early.as_ref().filter(|e| e.is_refusal()).cloned();
        let fin_cfg: Option<FinCfg> = match &refusal {
            Some(r) => Some(r.fin()),
            None => fin.cloned(),
        };
        let head: Vec<u8> = match (&refusal, &fin_cfg) {
            (Some(r), _) => r.bytes.clone(),
            (None, Some(f)) => f.head(),
            _ => b"HTTP/1.1 200 OK\r\nContent-Length: 0\r\n\r\n".to_vec(),
        };
        let m100 = self.early.as_ref().filter(|e| !e.is_refusal()).map(|e| e.bytes.clone()).unwrap_or_default();
        let (input, mlen): (Vec<u8>, usize) = match kind {
            "partial" => {
                let src = if pending100 { &m100 } else { &head };
                // a strict prefix that stays before the end of the first field line (never after a complete Location line)
                let sl = src.windows(2).position(|w| w == b"\r\n").unwrap_or(0) + 2;
                let lim = if src.len() > sl + 2 { sl + src[sl..].windows(2).position(|w| w == b"\r\n").unwrap_or(0) } else { src.len() - 1 };
                (src[..(self.v % lim.max(1)).min(src.len() - 1)].to_vec(), 0)
            }
            "late100" => {
                let mut i = m100.clone();
                if self.v % 2 == 1 {
                    i.extend(&head);
                }
                (i, m100.len())
            }
            _ => {
                let mut i = head.clone();
                if self.v % 3 != 0 {
                    i.extend(b"2\r\nab\r\n0\r\n\r\nHTTP/1.1 200 OK\r\n");
                }
                (i, head.len())
            }
        };
        if let FlowBox::RecvResponse(f) = &mut self.fb {
            let r = guarded(|| f.try_response(&input));
            let ready = guarded(|| f.can_proceed());
            let mut e = json!({"kind":kind,"mlen":mlen,"w":input.len(),"lenient": self.early.as_ref().map(|r| r.lenient()).unwrap_or(false)});
            // a late 100 offered together with the complete final head: the code may skip the 100 and hand out the
            // response in the same call (hlen = length of that head, 0 if the 100 was offered alone)
            let together = kind == "late100" && input.len() > mlen && fin_cfg.is_some();
            e["hlen"] = json!(if together { input.len() - mlen } else { 0 });
            if kind == "final" || together {
                let fc = fin_cfg.as_ref().unwrap();
                e["cell"] = fc.cell(&self.rq.method);
                e["connclose"] = json!(fc.connclose());
                e["conn"] = json!(fc.conn);
            }
            match (r, ready) {
                (Some(Ok((n, resp))), Some(rd)) => {
                    e["res"] = json!(if resp.is_some() { "some" } else { "none" });
                    e["n"] = json!(n);
                    e["ready"] = json!(rd);
                    if let Some(rs) = &resp {
                        e["got_status"] = json!(rs.status().as_u16());
                    }
                    if kind == "late100" && n > 0 && resp.is_none() {
                        self.took100 = true;
                    }
                    if together && resp.as_ref().map(|r| r.status().as_u16() != 100).unwrap_or(false) {
                        self.took100 = true;
                        self.final_seen = true;
                    }
                    if kind == "final" && resp.is_some() {
                        self.final_seen = true;
                    }
                    ev_call(t, "RecvResponse", "try_response", e);
                }
                (Some(Err(er)), Some(rd)) => {
                    e["res"] = json!("err");
                    e["n"] = json!(0);
                    e["ready"] = json!(rd);
                    e["err"] = json!(format!("{:?}", er));
                    ev_call(t, "RecvResponse", "try_response", e);
                }
                _ => self.panic(t, "try_response"),
            }
        }
    }

    /// try_response with raw bytes of a given kind (used for truncated heads)
    pub fn try_response_raw(&mut self, t: &mut Tracer, kind: &str, input: &[u8], status: u16) {
        self.calls += 1;
        if let FlowBox::RecvResponse(f) = &mut self.fb {
            let r = guarded(|| f.try_response(input));
            let ready = guarded(|| f.can_proceed());
            let mut e = json!({"kind":kind,"mlen":0,"w":input.len(),
                               "cell":{"method":self.rq.method,"status":status,"http10":false,"cl":"absent","clv":limbs(0),"te":"absent"},"connclose":false});
            match (r, ready) {
                (Some(Ok((n, resp))), Some(rd)) => {
                    e["res"] = json!(if resp.is_some() { "some" } else { "none" });
                    e["n"] = json!(n);
                    e["ready"] = json!(rd);
                    if resp.is_some() {
                        self.final_seen = true;
                    }
                    ev_call(t, "RecvResponse", "try_response", e);
                }
                (Some(Err(er)), Some(rd)) => {
                    e["res"] = json!("err");
                    e["n"] = json!(0);
                    e["ready"] = json!(rd);
                    e["err"] = json!(format!("{:?}", er));
                    ev_call(t, "RecvResponse", "try_response", e);
                }
                _ => self.panic(t, "try_response"),
            }
        }
    }

    pub fn op_read(&mut self, t: &mut Tracer, all: bool) {
        let total = self.body.len();
        let avail = if all || self.rstep >= 1 { total } else { (self.bpos + (total - self.bpos) / 3).max(self.bpos + 1).min(total) };
        self.op_read_to(t, avail);
    }

    /// one read() with the bytes of the response body that have arrived so far (up to `avail`)
    pub fn op_read_to(&mut self, t: &mut Tracer, avail: usize) {
        self.calls += 1;
        if let FlowBox::RecvBody(f) = &mut self.fb {
            self.rstep += 1;
            let mut out = vec![0u8; 8192];
            let w = &self.body[self.bpos.min(avail)..avail];
            // drain what is available (the model's read is "until no more progress")
            let r = guarded(|| f.read(w, &mut out));
            let ready = guarded(|| f.can_proceed());
            match (r, ready) {
                (Some(Ok((c, p))), Some(rd)) => {
                    self.bpos += c;
                    ev_call(t, "RecvBody", "read", json!({"res":"ok","c":c,"p":p,"ready":rd,"w":w.len()}));
                }
                (Some(Err(e)), Some(rd)) => ev_call(t, "RecvBody", "read", json!({"res":"err","c":0,"p":0,"ready":rd,"err":format!("{:?}", e)})),
                _ => self.panic(t, "body read"),
            }
        }
    }

    /// read until the flow says it can proceed (or nothing moves any more)
    pub fn drain_body(&mut self, t: &mut Tracer) {
        // the canonical caller: `while !can_proceed() { read }` — it trusts the readiness query
        if (self.v.wrapping_mul(2654435761) >> 9) % 2 == 0 {
            if let FlowBox::RecvBody(f) = &self.fb {
                if guarded(|| f.can_proceed()).unwrap_or(false) {
                    return;
                }
            }
        }
        // how the end of the message arrives: in one piece, or cut somewhere inside its last bytes (segmentation; a
        // server that computes trailers late) — the caller reads what has arrived and asks again
        let total = self.body.len();
        let msg_end = total.saturating_sub(17);
        let h = (self.v.wrapping_mul(40503) >> 5) as usize;
        let mut arrivals: Vec<usize> = match h % 4 {
            0 => vec![],
            1 => (msg_end.saturating_sub(10)..msg_end).collect(),
            2 => vec![msg_end.saturating_sub(2)],
            _ => vec![msg_end.saturating_sub(3 + (h / 4) % 8)],
        };
        arrivals.retain(|a| *a > self.bpos && *a < total);
        if !arrivals.is_empty() {
            t.class("drain:end-of-message-arrives-in-pieces");
        }
        arrivals.push(total);
        for avail in arrivals {
            for _ in 0..200 {
                let before = self.bpos;
                self.op_read_to(t, avail);
                let ready = match &self.fb {
                    FlowBox::RecvBody(f) => guarded(|| f.can_proceed()).unwrap_or(true),
                    _ => true,
                };
                if ready {
                    // the canonical caller stops reading here
                    return;
                }
                if self.bpos == before {
                    break;
                }
            }
        }
    }

    pub fn op_verdict(&mut self, t: &mut Tracer) {
        self.calls += 1;
        let st = self.fb.name();
        let r = match &self.fb {
            FlowBox::Redirect(f) => guarded(|| (f.must_close_connection(), f.close_reason())),
            FlowBox::Cleanup(f) => guarded(|| (f.must_close_connection(), f.close_reason())),
            _ => return,
        };
        match r {
            Some((mc, reason)) => {
                // which documented condition the text names: the five texts of today, possibly with a tail appended
                let text = reason.unwrap_or("");
                let rfact = [("version is http1.0", "Http10"), ("client sent Connection: close", "ClientClose"), ("server sent Connection: close", "ServerClose"),
                             ("got non-100 response before sending body", "Not100"), ("response body is close delimited", "CloseDelimited")]
                    .iter().find(|(p, _)| text.starts_with(p)).map(|x| x.1).unwrap_or("unknown");
                ev_call(t, st, "verdict", json!({"must_close": mc, "reason": text, "rfact": rfact}))
            }
            None => self.panic(t, "must_close_connection"),
        }
    }

    /// as_new_flow() in the Redirect state (at most once per state): the result is logged, the new flow dropped
    pub fn op_new_flow(&mut self, t: &mut Tracer, same_host: bool) {
        self.calls += 1;
        if let FlowBox::Redirect(f) = &mut self.fb {
            let pol = if same_host { ureq_proto::client::flow::RedirectAuthHeaders::SameHost } else { ureq_proto::client::flow::RedirectAuthHeaders::Never };
            match guarded(|| f.as_new_flow(pol)) {
                Some(Ok(Some(nf))) => {
                    let (m, u) = (nf.method().to_string(), nf.uri().to_string());
                    // "a flow that advanced is fully usable": the new flow must be able to send its request, and so
                    // must the flow of a further redirect
                    let mut usable = "yes".to_string();
                    match crate::fx::to_recv_response(nf) {
                        None => usable = "the redirected request cannot be sent".into(),
                        Some(mut rr) => {
                            let head = b"HTTP/1.1 302 Found\r\nLocation: /again\r\nContent-Length: 0\r\n\r\n";
                            let second = match guarded(|| rr.try_response(head)) {
                                Some(Ok((_, Some(_)))) => match guarded(|| rr.proceed()) {
                                    Some(Some(RecvResponseResult::Redirect(mut r2))) => guarded(|| r2.as_new_flow(pol)),
                                    _ => None,
                                },
                                _ => None,
                            };
                            match second {
                                Some(Ok(Some(nf2))) => {
                                    if crate::fx::to_recv_response(nf2).is_none() {
                                        usable = "the request of a second redirect cannot be sent".into();
                                    }
                                }
                                _ => usable = "a second redirect on the new flow could not be followed".into(),
                            }
                        }
                    }
                    ev_call(t, "Redirect", "new_flow", json!({"res":"flow","method":m,"uri":u,"usable":usable}))
                }
                Some(Ok(None)) => ev_call(t, "Redirect", "new_flow", json!({"res":"none"})),
                Some(Err(e)) => ev_call(t, "Redirect", "new_flow", json!({"res":"err","err":format!("{:?}", e)})),
                None => self.panic(t, "as_new_flow"),
            }
        }
    }

    pub fn op_status(&mut self, t: &mut Tracer) {
        if let FlowBox::Redirect(f) = &self.fb {
            match guarded(|| f.status().as_u16()) {
                Some(s) => ev_call(t, "Redirect", "status", json!({"val": s})),
                None => self.panic(t, "status"),
            }
        }
    }
}
