//! C12: arbitrary / malformed / hostile server bytes offered in any pieces to every server-facing call.
use crate::drv_br::recv_body;
use crate::flowbox::*;
use crate::util::*;
use serde_json::{json, Value};
use ureq_proto::client::flow::{Flow, RedirectAuthHeaders};

fn subseq(out: &[u8], input: &[u8]) -> bool {
    let mut j = 0;
    for &x in input {
        if j < out.len() && out[j] == x {
            j += 1;
        }
    }
    j == out.len()
}

fn h_ev(t: &mut Tracer, api: &str, w: usize, outl: usize, res: Option<Result<(usize, usize), String>>, ok_sub: bool, during: &str) -> Option<(usize, usize)> {
    match res {
        None => {
            t.ev(json!({"ev":"panic","during":during}));
            None
        }
        Some(Err(e)) => {
            t.class("h:err");
            t.ev(json!({"ev":"h","api":api,"w":w,"outl":outl,"res":"err","c":0,"p":0,"subseq_ok":true,"err":e}));
            None
        }
        Some(Ok((c, p))) => {
            t.class("h:ok");
            t.ev(json!({"ev":"h","api":api,"w":w,"outl":outl,"res":"ok","c":c,"p":p,"subseq_ok":ok_sub}));
            Some((c, p))
        }
    }
}

thread_local! {
    /// the caller gives up waiting for 100-continue at once (the 100, if any, arrives late)
    pub static GIVE_UP: std::cell::Cell<bool> = std::cell::Cell::new(false);
    /// the caller reads chunk by chunk (stop_on_chunk_boundary)
    pub static STOP_AT_CHUNKS: std::cell::Cell<bool> = std::cell::Cell::new(false);
}

/// Drive a whole exchange against an arbitrary server byte stream delivered in the given pieces.
pub fn drive_hostile(t: &mut Tracer, rq: RqCfg, stream: &[u8], arrivals: &[usize], outs: &[usize]) {
    let f = match guarded(|| Flow::new(rq.request())) {
        Some(Ok(f)) => f,
        _ => return,
    };
    let mut fb = FlowBox::Prepare(f);
    let mut pos = 0usize;
    let mut ai = 0usize;
    let mut avail = arrivals.first().copied().unwrap_or(stream.len()).min(stream.len());
    let mut oi = 0usize;
    let mut steps = 0;
    let mut idle = 0;
    let mut hops = 0;
    let adv = |t: &mut Tracer, op: &str, res: &str| t.ev(json!({"ev":"adv","op":op,"res":res}));
    loop {
        steps += 1;
        if steps > 400 + 4 * stream.len() {
            t.ev(json!({"ev":"stuck","during":"hostile exchange loop"}));
            return;
        }
        let all = avail >= stream.len();
        let mut arrive = |avail: &mut usize, ai: &mut usize| {
            *ai += 1;
            *avail = if *ai < arrivals.len() { (*avail + arrivals[*ai]).min(stream.len()) } else { stream.len() };
        };
        match fb {
            FlowBox::Prepare(f) => {
                fb = match guarded(|| f.proceed()) {
                    Some(x) => FlowBox::SendRequest(x),
                    None => {
                        t.ev(json!({"ev":"panic","during":"Prepare::proceed"}));
                        return;
                    }
                };
            }
            FlowBox::SendRequest(mut f) => {
                let mut buf = vec![0u8; 8192];
                for _ in 0..400 {
                    if guarded(|| f.can_proceed()).unwrap_or(true) {
                        break;
                    }
                    if guarded(|| f.write(&mut buf)).is_none() {
                        t.ev(json!({"ev":"panic","during":"head write"}));
                        return;
                    }
                }
                fb = match guarded(|| f.proceed()) {
                    Some(Ok(Some(ureq_proto::client::flow::SendRequestResult::Await100(x)))) => FlowBox::Await100(x),
                    Some(Ok(Some(ureq_proto::client::flow::SendRequestResult::SendBody(x)))) => FlowBox::SendBody(x),
                    Some(Ok(Some(ureq_proto::client::flow::SendRequestResult::RecvResponse(x)))) => FlowBox::RecvResponse(x),
                    Some(_) => return,
                    None => {
                        t.ev(json!({"ev":"panic","during":"SendRequest::proceed"}));
                        return;
                    }
                };
            }
            FlowBox::Await100(mut f) => {
                let w = &stream[pos..avail];
                let keep = guarded(|| f.can_keep_await_100()).unwrap_or(false) && !GIVE_UP.with(|g| g.get());
                let mut decided = !keep;
                if keep {
                    let r = guarded(|| f.try_read_100(w)).map(|r| r.map(|n| (n, 0)).map_err(|e| format!("{:?}", e)));
                    match h_ev(t, "try_read_100", w.len(), 0, r, true, "try_read_100") {
                        Some((n, _)) => pos += n.min(w.len()),
                        None => decided = true,
                    }
                    decided = decided || !guarded(|| f.can_keep_await_100()).unwrap_or(false);
                }
                if decided || all {
                    fb = match guarded(|| f.proceed()) {
                        Some(Ok(ureq_proto::client::flow::Await100Result::SendBody(x))) => {
                            adv(t, "proceed", "SendBody");
                            FlowBox::SendBody(x)
                        }
                        Some(Ok(ureq_proto::client::flow::Await100Result::RecvResponse(x))) => {
                            adv(t, "proceed", "RecvResponse");
                            FlowBox::RecvResponse(x)
                        }
                        Some(Err(_)) => return,
                        None => {
                            t.ev(json!({"ev":"panic","during":"Await100::proceed"}));
                            return;
                        }
                    };
                } else {
                    arrive(&mut avail, &mut ai);
                    fb = FlowBox::Await100(f);
                }
            }
            FlowBox::SendBody(mut f) => {
                let mut buf = vec![0u8; 256];
                let chunked = guarded(|| f.is_chunked());
                if chunked.is_none() {
                    t.ev(json!({"ev":"panic","during":"is_chunked"}));
                    return;
                }
                // (the length-delimited request bodies of this driver are two bytes long)
                let r1 = guarded(|| f.write(b"ab", &mut buf)).map(|_| ());
                let r2 = guarded(|| f.write(&[], &mut buf));
                if r1.is_none() || r2.is_none() {
                    t.ev(json!({"ev":"panic","during":"body write"}));
                    return;
                }
                fb = match guarded(|| f.proceed()) {
                    Some(Some(x)) => FlowBox::RecvResponse(x),
                    Some(None) => return,
                    None => {
                        t.ev(json!({"ev":"panic","during":"SendBody::proceed"}));
                        return;
                    }
                };
            }
            FlowBox::RecvResponse(mut f) => {
                let w = &stream[pos..avail];
                let r = guarded(|| f.try_response(w));
                let (got, failed) = match &r {
                    Some(Ok((_, resp))) => (resp.is_some(), false),
                    Some(Err(_)) => (false, true),
                    None => (false, true),
                };
                let rr = r.map(|x| x.map(|(n, _)| (n, 0)).map_err(|e| format!("{:?}", e)));
                if let Some((n, _)) = h_ev(t, "try_response", w.len(), 0, rr, true, "try_response") {
                    if n > 0 || got {
                        idle = 0;
                    }
                    pos += n.min(w.len());
                }
                let ready = match guarded(|| f.can_proceed()) {
                    Some(v) => v,
                    None => {
                        t.ev(json!({"ev":"panic","during":"can_proceed after server input"}));
                        return;
                    }
                };
                // an interim response handed to the caller (got, not ready): the caller keeps calling try_response
                if failed || ready || (all && idle >= 2) || (got && all && pos >= stream.len()) {
                    // advancing after whatever the server sent must not panic
                    fb = match guarded(|| f.proceed()) {
                        Some(Some(ureq_proto::client::flow::RecvResponseResult::RecvBody(mut x))) => {
                            adv(t, "proceed", "RecvBody");
                            if STOP_AT_CHUNKS.with(|g| g.get()) {
                                x.stop_on_chunk_boundary(true);
                            }
                            FlowBox::RecvBody(x)
                        }
                        Some(Some(ureq_proto::client::flow::RecvResponseResult::Redirect(x))) => {
                            adv(t, "proceed", "Redirect");
                            FlowBox::Redirect(x)
                        }
                        Some(Some(ureq_proto::client::flow::RecvResponseResult::Cleanup(x))) => {
                            adv(t, "proceed", "Cleanup");
                            FlowBox::Cleanup(x)
                        }
                        Some(None) => {
                            adv(t, "proceed", "none");
                            return;
                        }
                        None => {
                            t.ev(json!({"ev":"panic","during":"RecvResponse::proceed after server input"}));
                            return;
                        }
                    };
                    idle = 0;
                } else {
                    idle += 1;
                    arrive(&mut avail, &mut ai);
                    fb = FlowBox::RecvResponse(f);
                }
            }
            FlowBox::RecvBody(mut f) => {
                let w = &stream[pos..avail];
                let outl = outs[oi % outs.len()];
                oi += 1;
                let mut out = vec![0u8; outl];
                let r = guarded(|| f.read(w, &mut out));
                let failed = matches!(r, Some(Err(_)) | None);
                let okc = match &r {
                    Some(Ok((c, p))) => *c <= w.len() && *p <= outl && subseq(&out[..*p], &w[..*c]),
                    _ => true,
                };
                let rr = r.map(|x| x.map_err(|e| format!("{:?}", e)));
                let moved = match h_ev(t, "read", w.len(), outl, rr, okc, "body read") {
                    Some((c, p)) => {
                        pos += c.min(w.len());
                        c + p > 0
                    }
                    None => false,
                };
                if moved {
                    idle = 0;
                } else {
                    idle += 1;
                }
                let ready = match guarded(|| f.can_proceed()) {
                    Some(v) => v,
                    None => {
                        t.ev(json!({"ev":"panic","during":"can_proceed after server input"}));
                        return;
                    }
                };
                if failed || (ready && (all || idle > 0)) || (all && idle >= outs.len() + 1) {
                    fb = match guarded(|| f.proceed()) {
                        Some(Some(ureq_proto::client::flow::RecvBodyResult::Redirect(x))) => {
                            adv(t, "proceed", "Redirect");
                            FlowBox::Redirect(x)
                        }
                        Some(Some(ureq_proto::client::flow::RecvBodyResult::Cleanup(x))) => {
                            adv(t, "proceed", "Cleanup");
                            FlowBox::Cleanup(x)
                        }
                        Some(None) => {
                            adv(t, "proceed", "none");
                            return;
                        }
                        None => {
                            t.ev(json!({"ev":"panic","during":"RecvBody::proceed after server input"}));
                            return;
                        }
                    };
                    idle = 0;
                } else {
                    if !moved {
                        arrive(&mut avail, &mut ai);
                    }
                    fb = FlowBox::RecvBody(f);
                }
            }
            FlowBox::Redirect(mut f) => {
                if guarded(|| (f.must_close_connection(), f.close_reason(), f.status())).is_none() {
                    t.ev(json!({"ev":"panic","during":"redirect queries after server input"}));
                    return;
                }
                let next = match guarded(|| f.as_new_flow(RedirectAuthHeaders::SameHost)) {
                    Some(r) => {
                        adv(t, "as_new_flow", match &r { Ok(Some(_)) => "flow", Ok(None) => "none", Err(_) => "err" });
                        r.ok().flatten()
                    }
                    None => {
                        t.ev(json!({"ev":"panic","during":"as_new_flow after server input"}));
                        return;
                    }
                };
                hops += 1;
                fb = match next {
                    // follow the redirect on the same byte stream (the server keeps talking): up to 3 hops
                    Some(nf) if hops <= 3 => {
                        if guarded(|| (nf.uri().to_string(), nf.method().clone())).is_none() {
                            t.ev(json!({"ev":"panic","during":"inspecting the redirected flow"}));
                            return;
                        }
                        FlowBox::Prepare(nf)
                    }
                    _ => match guarded(|| f.proceed()) {
                        Some(x) => FlowBox::Cleanup(x),
                        None => {
                            t.ev(json!({"ev":"panic","during":"Redirect::proceed"}));
                            return;
                        }
                    },
                };
            }
            FlowBox::Cleanup(f) => {
                match guarded(|| (f.must_close_connection(), f.close_reason())) {
                    Some((mc, _)) => adv(t, "verdict", if mc { "must-close" } else { "reusable" }),
                    None => t.ev(json!({"ev":"panic","during":"verdict after server input"})),
                }
                return;
            }
            FlowBox::Dead => return,
        }
    }
}

fn rq_for(tag: &str) -> RqCfg {
    let base = RqCfg { method: "GET".into(), ver10: false, expect: false, connclose: false, despite: false, framing: "default".into(), conn_other: None, expect_extra: false };
    match tag {
        "head" => RqCfg { method: "HEAD".into(), ..base },
        "post-expect" => RqCfg { method: "POST".into(), expect: true, ..base },
        "post10-close-expect" => RqCfg { method: "POST".into(), ver10: true, expect: true, connclose: true, ..base },
        "post-expect-giveup" => RqCfg { method: "POST".into(), expect: true, ..base },
        "get10-close" => RqCfg { method: "GET".into(), ver10: true, connclose: true, ..base },
        "post-login" => RqCfg { method: "POST".into(), framing: "cl2".into(), ..base },
        "connect" => RqCfg { method: "CONNECT".into(), ..base },
        "put-cl" => RqCfg { method: "PUT".into(), framing: "cl2".into(), ..base },
        _ => base,
    }
}

fn render_segs(segs: &Value, lf_only: bool) -> Vec<u8> {
    let eol: &[u8] = if lf_only { b"\n" } else { b"\r\n" };
    let mut b: Vec<u8> = vec![];
    for s in segs.as_array().unwrap() {
        let g = |k: &str| s[k].as_str().unwrap_or("").to_string();
        let rep = s["repeat"].as_u64().unwrap_or(0) as usize;
        match s["t"].as_str().unwrap() {
            "status" => {
                let reason = if rep > 0 { "r".repeat(rep) } else { g("reason") };
                b.extend(format!("HTTP/{} {} {}", g("ver"), g("code"), reason).as_bytes());
                b.extend(eol);
            }
            "field" | "trailer" => {
                let name = if rep > 0 && g("name") == "LONGNAME" { "a".repeat(rep) } else { g("name") };
                let val = if rep > 0 && g("val") == "LONGVALUE" { "v".repeat(rep) } else { g("val") };
                b.extend(format!("{}: ", name).as_bytes());
                // the marker <HI> stands for one obs-text byte
                for (k, piece) in val.split("<HI>").enumerate() {
                    if k > 0 {
                        b.push(0xE5);
                    }
                    b.extend(piece.as_bytes());
                }
                b.extend(eol);
            }
            "blank" | "crlf" => b.extend(eol),
            "size" => {
                b.extend(format!("{}{}", g("n"), g("ext")).as_bytes());
                b.extend(eol);
            }
            "data" => b.extend(payload(s["n"].as_u64().unwrap() as usize, 12)),
            "raw" => b.extend(g("bytes").as_bytes()),
            _ => {}
        }
    }
    b
}

pub fn c12(o: &Opts, t: &mut Tracer) -> Value {
    let mut rng = rng_for(o.seed, 0xC12);
    // (a) every byte string over the decoder alphabet into a chunked body reader, whole and in 1-byte pieces
    let alpha: [u8; 9] = [b'0', b'1', b'a', b'F', b';', b' ', b'\r', b'\n', b'x'];
    let maxlen = if o.quick() { 5 } else { 7 };
    let head = b"HTTP/1.1 200 OK\r\nTransfer-Encoding: chunked\r\n\r\n";
    let mut nstr = 0u64;
    let mut cur: Vec<usize> = vec![];
    loop {
        // next string in length-lexicographic order
        let mut i = cur.len();
        loop {
            if i == 0 {
                cur = vec![0; cur.len() + 1];
                break;
            }
            i -= 1;
            if cur[i] + 1 < alpha.len() {
                cur[i] += 1;
                for j in i + 1..cur.len() {
                    cur[j] = 0;
                }
                break;
            }
        }
        if cur.len() > maxlen {
            break;
        }
        let s: Vec<u8> = cur.iter().map(|&k| alpha[k]).collect();
        nstr += 1;
        if o.quick() && s.len() == maxlen && nstr % 3 != o.seed % 3 {
            continue;
        }
        if !o.quick() && s.len() == maxlen && nstr % 8 != o.seed % 8 {
            continue;
        }
        for mode in 0..2 {
            let api = if (nstr + mode) % 2 == 0 { "flow" } else { "call" };
            let mut r = match recv_body(api, head) {
                Some(r) => r,
                None => continue,
            };
            t.case(json!({"ev":"case","comp":"hostile","note":"decoder-alphabet","str":hex(&s),"mode":mode}));
            let mut pos = 0;
            let steps: Vec<usize> = if mode == 0 { vec![s.len()] } else { (1..=s.len()).collect() };
            for &avail in &steps {
                let mut guard = 0;
                loop {
                    guard += 1;
                    let w = &s[pos..avail];
                    let outl = if mode == 0 { 64 } else { [1usize, 64][(avail + guard) % 2] };
                    let mut out = vec![0u8; outl];
                    let res = r.read(w, &mut out);
                    let okc = match &res {
                        Some(Ok((c, p))) => *c <= w.len() && *p <= outl && subseq(&out[..*p], &w[..*c]),
                        _ => true,
                    };
                    let rr = res.map(|x| x.map_err(|e| format!("{:?}", e)));
                    match h_ev(t, "read", w.len(), outl, rr, okc, "body read") {
                        Some((c, p)) => {
                            pos += c.min(w.len());
                            if c + p == 0 || guard > 20 {
                                break;
                            }
                        }
                        None => break,
                    }
                }
            }
            let _ = r.ready();
            if let Some((mc, st)) = r.verdict() {
                t.ev(json!({"ev":"adv","op":"proceed+verdict","res":format!("{} {}", st, mc)}));
            }
        }
    }
    t.sig(format!("alphabet/{}", nstr));
    // (b) token strings over a head alphabet into try_read_100 / try_response
    let toks: [&[u8]; 17] = [
        b"HTTP/1.1", b"HTTP/1.0", b" ", b"100", b"200", b"302", b"\r\n", b"\r", b"\n", b"Location:", b"Content-Length:",
        b"Transfer-Encoding: chunked", b"Connection: close", b"x", b"5", b"99999999999999999999", b"HTTP/2.0",
    ];
    let tlen = if o.quick() { 3 } else { 5 };
    let total: usize = (1..=tlen).map(|k| toks.len().pow(k as u32)).sum();
    let mut ntok = 0u64;
    for idx in 0..total {
        // decode idx into a token string of length 1..=tlen
        let mut k = 1;
        let mut rem = idx;
        while rem >= toks.len().pow(k as u32) {
            rem -= toks.len().pow(k as u32);
            k += 1;
        }
        if o.quick() && k == tlen && idx % 2 != (o.seed % 2) as usize {
            continue;
        }
        if !o.quick() && k == tlen && idx % 16 != (o.seed % 16) as usize {
            continue;
        }
        let mut s: Vec<u8> = vec![];
        let mut x = rem;
        for _ in 0..k {
            s.extend(toks[x % toks.len()]);
            x /= toks.len();
        }
        ntok += 1;
        let tag = ["get", "post-expect", "head", "post10-close-expect", "put-cl"][idx % 5];
        t.case(json!({"ev":"case","comp":"hostile","note":"head-tokens","req":tag,"str":hex(&s)}));
        let arrivals: Vec<usize> = if idx % 3 == 0 { vec![1; s.len()] } else { vec![s.len()] };
        drive_hostile(t, rq_for(tag), &s, &arrivals, &[64, 1, 0]);
    }
    t.sig(format!("tokens/{}", ntok));
    // (c) the TLC-enumerated faulty exchanges (spec/Faults.tla) under seeded arrival / buffer schedules
    let mut nfault = 0u64;
    if let Some(path) = &o.scripts {
        let text = std::fs::read_to_string(path).expect("scripts file");
        let reps = if o.quick() { 2 } else { 12 };
        for line in text.lines() {
            let f: Value = serde_json::from_str(line).unwrap();
            if f["kind"] != "fault" {
                continue;
            }
            let stream = render_segs(&f["segs"], f["op"].as_str().map(|s| s.starts_with("lf-")).unwrap_or(false));
            let tag = f["req"].as_str().unwrap();
            t.sig(format!("fault/{}/{}/{}", f["op"].as_str().unwrap(), f["site"], tag));
            t.class(&format!("fault:{}", f["op"].as_str().unwrap()));
            for rep in 0..reps {
                nfault += 1;
                t.case(json!({"ev":"case","comp":"hostile","note":"fault","op":f["op"],"site":f["site"],"req":tag,"len":stream.len(),"rep":rep}));
                let arrivals: Vec<usize> = match rep {
                    0 => vec![stream.len()],
                    1 if stream.len() < 400 => vec![1; stream.len()],
                    _ => (0..rng.gen_range(1..8)).map(|_| rng.gen_range(1..(stream.len() / 2 + 3))).collect(),
                };
                // (3 and 10 are the chunk sizes of the chunked base exchange: buffers that a chunk fills exactly)
                let outs: Vec<usize> = (0..3).map(|_| [0usize, 1, 2, 7, 64, 100000, 3, 10][rng.gen_range(0..8)]).collect();
                let outs = if outs.iter().all(|&x| x == 0) { vec![0, 9] } else { outs };
                // also try the exchange against other request configurations
                let tag2 = if rep >= 2 { ["get", "head", "post-expect", "connect", "post10-close-expect", "put-cl", "post-expect-giveup", "get10-close", "post-login"][rng.gen_range(0..9)] } else { tag };
                GIVE_UP.with(|g| g.set(tag2 == "post-expect-giveup"));
                crate::flowbox::LOGIN_HEADERS.with(|g| g.set(tag2 == "post-login"));
                STOP_AT_CHUNKS.with(|g| g.set(rep % 2 == 1));
                drive_hostile(t, rq_for(tag2), &stream, &arrivals, &outs);
                if rep == 1 && stream.len() < 400 && f["segs"].to_string().contains("\"size\"") {
                    // chunked streams once more byte by byte with buffers that each chunk fills exactly
                    t.case(json!({"ev":"case","comp":"hostile","note":"fault","op":f["op"],"site":f["site"],"req":tag,"len":stream.len(),"rep":"exact-fit"}));
                    drive_hostile(t, rq_for(tag2), &stream, &arrivals, &[3, 10, 3, 10, 1]);
                    drive_hostile(t, rq_for(tag2), &stream, &arrivals, &[10, 3]);
                }
                GIVE_UP.with(|g| g.set(false));
                crate::flowbox::LOGIN_HEADERS.with(|g| g.set(false));
                STOP_AT_CHUNKS.with(|g| g.set(false));
            }
        }
    }
    // (d) random mutations at byte level: bit flips / deletions / duplications of rendered valid exchanges
    let nrand = if o.quick() { 1500 } else { 300000 };
    let bases: Vec<Vec<u8>> = vec![
        b"HTTP/1.1 200 OK\r\nContent-Length: 5\r\nX-A: b\r\n\r\nhello".to_vec(),
        b"HTTP/1.1 200 OK\r\nTransfer-Encoding: chunked\r\n\r\n3\r\nabc\r\nA;x=1\r\n0123456789\r\n0\r\nt: v\r\n\r\n".to_vec(),
        b"HTTP/1.1 100 Continue\r\n\r\nHTTP/1.1 302 Found\r\nLocation: /next\r\nContent-Length: 0\r\n\r\n".to_vec(),
        b"HTTP/1.0 200 OK\r\nConnection: close\r\n\r\nbody until close".to_vec(),
    ];
    for i in 0..nrand {
        let mut s = bases[i % bases.len()].clone();
        for _ in 0..rng.gen_range(1..4) {
            let at = rng.gen_range(0..s.len());
            match rng.gen_range(0..5) {
                0 => s[at] ^= 1 << rng.gen_range(0..8),
                1 => {
                    s.remove(at);
                }
                2 => {
                    let b = s[at];
                    s.insert(at, b);
                }
                3 => s.insert(at, [b'\r', b'\n', 0, 0xff, b' ', b':'][rng.gen_range(0..6)]),
                _ => s.truncate(at.max(1)),
            }
            if s.is_empty() {
                s.push(b'H');
            }
        }
        let tag = ["get", "post-expect", "head", "connect", "post10-close-expect"][rng.gen_range(0..5)];
        t.case(json!({"ev":"case","comp":"hostile","note":"byte-mutation","req":tag,"str":hex(&s[..s.len().min(120)])}));
        let arrivals: Vec<usize> = (0..rng.gen_range(1..6)).map(|_| rng.gen_range(1..s.len() + 1)).collect();
        drive_hostile(t, rq_for(tag), &s, &arrivals, &[[0usize, 1, 3, 64][rng.gen_range(0..4)], 64]);
    }
    t.sig(format!("bytemut/{}", nrand));
    json!({"alphabet_strings": nstr, "token_strings": ntok, "fault_runs": nfault, "byte_mutations": nrand})
}
