//! Drivers for request analysis and head writing: C02 (head), C16 (caller-added headers), C17 (validation).
use crate::util::*;
use serde_json::{json, Value};
use ureq_proto::client::call::Call;
use ureq_proto::client::flow::state::Prepare;
use ureq_proto::client::flow::{Flow, RecvResponseResult, RedirectAuthHeaders, SendRequestResult};
use ureq_proto::http::{HeaderValue, Method, Request, Version};
use ureq_proto::Error;

#[derive(Clone, Debug)]
pub struct ReqSpec {
    pub method: String,
    pub version: &'static str,
    pub uri: String,
    pub orig: Vec<(String, Vec<u8>)>,
    pub added: Vec<(String, Vec<u8>)>,
    pub despite: bool,
    pub api: &'static str, // flow | call_without | call_with
    pub hops: Vec<(u16, String)>,
    pub policy_same_host: bool,
    pub despite_first: bool,
    /// indices (mod 3) of added headers whose HeaderValue carries the `sensitive` flag (not part of the bytes)
    pub sensitive: bool,
}

pub fn version_of(v: &str) -> Version {
    match v {
        "0.9" => Version::HTTP_09,
        "1.0" => Version::HTTP_10,
        "1.1" => Version::HTTP_11,
        "2" => Version::HTTP_2,
        _ => Version::HTTP_3,
    }
}

pub fn version_str(v: Version) -> &'static str {
    if v == Version::HTTP_09 {
        "0.9"
    } else if v == Version::HTTP_10 {
        "1.0"
    } else if v == Version::HTTP_11 {
        "1.1"
    } else if v == Version::HTTP_2 {
        "2"
    } else {
        "3"
    }
}

pub fn build_request(s: &ReqSpec) -> Request<()> {
    let mut b = Request::builder().method(Method::from_bytes(s.method.as_bytes()).unwrap()).uri(s.uri.as_str()).version(version_of(s.version));
    for (k, (n, v)) in s.orig.iter().enumerate() {
        let mut hv = HeaderValue::from_bytes(v).expect("harness: header value");
        if s.sensitive && k % 2 == 1 {
            // (the flag says "do not log this value"; it changes neither the bytes nor the header's place in the head)
            hv.set_sensitive(true);
        }
        b = b.header(n.as_str(), hv);
    }
    b.body(()).expect("harness: request")
}

/// Follow the configured redirect hops; returns the flow in Prepare for the final request.
pub fn flow_at_depth(s: &ReqSpec) -> Option<Flow<(), Prepare>> {
    let mut f = Flow::new(build_request(s)).ok()?;
    for (status, loc) in &s.hops {
        let mut rr = crate::fx::to_recv_response(f)?;
        let head = format!("HTTP/1.1 {} Found\r\nLocation: {}\r\nContent-Length: 0\r\n\r\n", status, loc);
        let (_, r) = guarded(|| rr.try_response(head.as_bytes()))?.ok()?;
        r?;
        let mut red = match guarded(|| rr.proceed())?? {
            RecvResponseResult::Redirect(r) => r,
            _ => return None,
        };
        let pol = if s.policy_same_host { RedirectAuthHeaders::SameHost } else { RedirectAuthHeaders::Never };
        f = guarded(|| red.as_new_flow(pol))?.ok()??;
    }
    Some(f)
}

fn classify(name: &str, v: &[u8]) -> &'static str {
    let text = std::str::from_utf8(v).ok().filter(|s| s.bytes().all(|b| (32..127).contains(&b) || b == b'\t'));
    match name {
        "content-length" => match text {
            None => "nontext",
            Some(t) => {
                if !t.is_empty() && t.bytes().all(|b| b.is_ascii_digit()) && t.parse::<u64>().is_ok() {
                    "num"
                } else {
                    "nonnum"
                }
            }
        },
        "transfer-encoding" => match text {
            None => "nontext",
            Some(t) => {
                if t.eq_ignore_ascii_case("chunked") {
                    "chunked"
                } else {
                    "other"
                }
            }
        },
        _ => {
            if text.is_some() {
                "text"
            } else {
                "nontext"
            }
        }
    }
}

fn hdr_json(list: &[(String, Vec<u8>)]) -> Value {
    Value::Array(list.iter().map(|(n, v)| json!({"n": n.to_ascii_lowercase(), "v": hex(v), "k": classify(&n.to_ascii_lowercase(), v)})).collect())
}

pub enum Sut {
    Flow(Flow<(), ureq_proto::client::flow::state::SendRequest>),
    CallWithout(Call<ureq_proto::client::call::state::WithoutBody, ()>),
    CallWith(Call<ureq_proto::client::call::state::WithBody, ()>),
}

pub struct Built {
    pub sut: Sut,
    pub rq: Value,
}

const SUPPRESSED: [&str; 3] = ["cookie", "content-length", "authorization"];

thread_local! {
    /// set when Flow::header() failed or panicked for a header that is valid by construction (names / values of the drivers)
    static HEADER_ADD_FAILED: std::cell::Cell<bool> = std::cell::Cell::new(false);
}

/// Build the system under test for a request spec and describe the request for the specification.
pub fn build_sut(s: &ReqSpec) -> Option<Built> {
    match s.api {
        "flow" => {
            let mut f = flow_at_depth(s)?;
            // describe the request through the flow's own getters (C13-C15 check those separately)
            let method = f.method().as_str().to_string();
            let version = version_str(f.version());
            let target = f.uri().path_and_query().map(|p| p.as_str().to_string()).unwrap_or_else(|| "/".into());
            let host = f.uri().host().unwrap_or("").to_string();
            let hostport = match f.uri().port_u16() {
                Some(p) => format!("{}:{}", host, p),
                None => host.clone(),
            };
            let mut orig: Vec<(String, Vec<u8>)> = f.headers().iter().map(|(k, v)| (k.as_str().to_string(), v.as_bytes().to_vec())).collect();
            if !s.hops.is_empty() {
                // C13's rule for the previous request's credentials: kept only under the same-host policy, towards the
                // original host, on the original scheme or https
                let ou: Option<ureq_proto::http::Uri> = s.uri.parse().ok();
                let keep_auth = s.policy_same_host
                    && ou.as_ref().map(|u| u.host().is_some() && u.host() == f.uri().host() && (u.scheme_str() == f.uri().scheme_str() || f.uri().scheme_str() == Some("https"))).unwrap_or(false);
                orig.retain(|(n, _)| !SUPPRESSED.contains(&n.as_str()) || (n == "authorization" && keep_auth));
            }
            if s.despite && s.despite_first {
                f.send_body_despite_method();
            }
            for (k, (n, v)) in s.added.iter().enumerate() {
                let mut hv = HeaderValue::from_bytes(v).expect("harness: header value");
                if s.sensitive && k % 2 == 0 {
                    hv.set_sensitive(true);
                }
                // (a failure while adding a header is reported by the caller as a request that could not be built)
                match guarded(|| f.header(n.as_str(), hv)) {
                    Some(Ok(())) => {}
                    _ => {
                        HEADER_ADD_FAILED.with(|x| x.set(true));
                        return None;
                    }
                }
            }
            if s.despite && !s.despite_first {
                f.send_body_despite_method();
            }
            let rq = json!({"method": method, "version": version, "api": "flow", "despite": s.despite, "target": target,
                            "hosthex": hex(host.as_bytes()), "hostporthex": hex(hostport.as_bytes()), "added": hdr_json(&s.added), "orig": hdr_json(&orig), "depth": s.hops.len()});
            Some(Built { sut: Sut::Flow(f.proceed()), rq })
        }
        api => {
            let req = build_request(s);
            let target = req.uri().path_and_query().map(|p| p.as_str().to_string()).unwrap_or_else(|| "/".into());
            let host = req.uri().host().unwrap_or("").to_string();
            let hostport = match req.uri().port_u16() {
                Some(p) => format!("{}:{}", host, p),
                None => host.clone(),
            };
            let orig: Vec<(String, Vec<u8>)> = req.headers().iter().map(|(k, v)| (k.as_str().to_string(), v.as_bytes().to_vec())).collect();
            let rq = json!({"method": s.method, "version": s.version, "api": api, "despite": false, "target": target,
                            "hosthex": hex(host.as_bytes()), "hostporthex": hex(hostport.as_bytes()), "added": [], "orig": hdr_json(&orig), "depth": 0});
            let sut = if api == "call_with" { Sut::CallWith(Call::with_body(req).ok()?) } else { Sut::CallWithout(Call::without_body(req).ok()?) };
            Some(Built { sut, rq })
        }
    }
}

impl Sut {
    pub fn write(&mut self, out: &mut [u8]) -> Option<Result<usize, Error>> {
        match self {
            Sut::Flow(f) => guarded(|| f.write(out)),
            Sut::CallWithout(c) => guarded(|| c.write(out)),
            Sut::CallWith(c) => guarded(|| c.write(&[], out).map(|r| r.1)),
        }
    }
    pub fn ready(&self) -> Option<bool> {
        match self {
            Sut::Flow(f) => guarded(|| f.can_proceed()),
            Sut::CallWithout(c) => guarded(|| c.is_finished()),
            Sut::CallWith(_) => None,
        }
    }
}

pub struct LexedHead {
    pub method: String,
    pub target: String,
    pub version: String,
    pub fields: Vec<(String, Vec<u8>)>,
    pub complete: bool,
    pub lens: Vec<usize>,
}

pub fn lex_head(b: &[u8]) -> LexedHead {
    let mut lines: Vec<&[u8]> = vec![];
    let mut lens = vec![];
    let mut pos = 0;
    let mut complete = false;
    while pos < b.len() {
        let e = match (pos..b.len().saturating_sub(1)).find(|&i| b[i] == b'\r' && b[i + 1] == b'\n') {
            Some(e) => e,
            None => break,
        };
        lens.push(e + 2 - pos);
        if e == pos {
            complete = e + 2 == b.len();
            pos = e + 2;
            break;
        }
        lines.push(&b[pos..e]);
        pos = e + 2;
    }
    if pos != b.len() {
        complete = false;
    }
    let mut lh = LexedHead { method: String::new(), target: String::new(), version: String::new(), fields: vec![], complete, lens };
    if let Some(first) = lines.first() {
        let s = String::from_utf8_lossy(first).to_string();
        let parts: Vec<&str> = s.split(' ').collect();
        if parts.len() == 3 {
            lh.method = parts[0].to_string();
            lh.target = parts[1].to_string();
            lh.version = parts[2].strip_prefix("HTTP/").unwrap_or(parts[2]).to_string();
        } else {
            lh.complete = false;
        }
    }
    for line in lines.iter().skip(1) {
        match line.iter().position(|&c| c == b':') {
            Some(c) => {
                let mut v = &line[c + 1..];
                while let [b' ' | b'\t', rest @ ..] = v {
                    v = rest;
                }
                while let [rest @ .., b' ' | b'\t'] = v {
                    v = rest;
                }
                lh.fields.push((String::from_utf8_lossy(&line[..c]).to_ascii_lowercase(), v.to_vec()));
            }
            None => lh.complete = false,
        }
    }
    lh
}

fn ev_srw(t: &mut Tracer, sut: &mut Sut, outl: usize, acc: &mut Vec<u8>, ref_len: usize) -> &'static str {
    let mut out = vec![0u8; outl];
    match sut.write(&mut out) {
        None => {
            t.ev(json!({"ev":"panic","during":"head write"}));
            "panic"
        }
        Some(Err(e)) => {
            let overflow = matches!(e, Error::OutputOverflow);
            let ready = sut.ready().unwrap_or(false);
            t.class(if overflow { "srw:overflow" } else { "srw:err" });
            t.ev(json!({"ev":"srw","outl":outl,"res": if overflow {"overflow"} else {"err"},"n":0,"whole":true,"ready":ready,"err":format!("{:?}", e)}));
            if overflow { "overflow" } else { "err" }
        }
        Some(Ok(n)) => {
            let nn = n.min(outl);
            let whole = n <= outl && (nn == 0 || (nn >= 2 && &out[nn - 2..nn] == b"\r\n"));
            acc.extend(&out[..nn]);
            let ready = sut.ready().unwrap_or(acc.len() == ref_len);
            if n == 0 {
                t.class("srw:zero");
            }
            t.ev(json!({"ev":"srw","outl":outl,"res":"ok","n":n,"whole":whole,"ready":ready}));
            "ok"
        }
    }
}

fn ev_head(t: &mut Tracer, acc: &[u8], reference: &[u8], chunked_after: &str) {
    let lh = lex_head(acc);
    t.ev(json!({"ev":"head","method":lh.method,"target":lh.target,"version":lh.version,
                "fields": lh.fields.iter().map(|(n, v)| json!({"n": n, "v": hex(v)})).collect::<Vec<_>>(),
                "complete": lh.complete, "same_as_ref": acc == reference, "chunked_after": chunked_after}));
}

/// Extra X04: what a flow in the send-request state says about the request it is sending.
fn ev_view(t: &mut Tracer, s: &ReqSpec) {
    if s.api != "flow" {
        return;
    }
    let mut b = match build_sut(s) {
        Some(b) => b,
        None => return,
    };
    if let Sut::Flow(f) = &mut b.sut {
        // (rows are copied out inside the call: works whether headers_map() hands out a map or a reference to one)
        let map = guarded(|| f.headers_map().map(|m| m.iter().map(|(k, v)| (k.as_str().to_string(), v.as_bytes().to_vec())).collect::<Vec<(String, Vec<u8>)>>()));
        let line = guarded(|| (f.method().as_str().to_string(), f.uri().path_and_query().map(|p| p.as_str().to_string()).unwrap_or_else(|| "/".into()), version_str(f.version())));
        match (map, line) {
            (Some(Ok(m)), Some((method, target, version))) => {
                let rows: Vec<Value> = m.iter().map(|(k, v)| json!({"n": k, "v": hex(v)})).collect();
                t.ev(json!({"ev":"view","res":"ok","method":method,"target":target,"version":version,"map":rows}));
            }
            (Some(Err(e)), Some((method, target, version))) => {
                t.ev(json!({"ev":"view","res":"err","method":method,"target":target,"version":version,"map":[],"err":format!("{:?}", e)}));
            }
            _ => t.ev(json!({"ev":"panic","during":"headers_map / method / uri / version in the send-request state"})),
        }
    }
}

/// One request: reference run, then buffer schedules, all logged. `schedules` are lists of buffer sizes
/// (the last size is repeated until the head is complete).
pub fn exercise(t: &mut Tracer, s: &ReqSpec, rng: &mut StdRng, nsched: usize, chk_orig: bool, note: &str) {
    HEADER_ADD_FAILED.with(|x| x.set(false));
    let mut b = match build_sut(s) {
        Some(b) => b,
        None => {
            if HEADER_ADD_FAILED.with(|x| x.get()) {
                t.case(json!({"ev":"case","comp":"sendhead","rq":{"method":s.method,"version":s.version,"api":"flow","despite":s.despite,"target":"","hosthex":"","hostporthex":"","added":[],"orig":[],"depth":s.hops.len()},
                              "lens":[],"chk_orig":false,"note":"header could not be added"}));
                t.ev(json!({"ev":"stuck","during":format!("adding header number {} of {} to a flow in the prepare state (refused or panicked)", 0, s.added.len())}));
            }
            return;
        }
    };
    if !s.hops.is_empty() {
        t.class("req:on-redirected-flow");
    }
    // reference run with one big buffer
    let mut big = vec![0u8; 1 << 16];
    let mut reference: Vec<u8> = vec![];
    for _ in 0..400 {
        match b.sut.write(&mut big) {
            Some(Ok(n)) => reference.extend(&big[..n]),
            _ => {
                reference.clear();
                break;
            }
        }
        // the head ends with the empty line (for Call<WithBody> a further empty write would end the body)
        if reference.ends_with(b"\r\n\r\n") || b.sut.ready() == Some(true) {
            break;
        }
    }
    let lens = lex_head(&reference).lens;
    t.case(json!({"ev":"case","comp":"sendhead","rq":b.rq,"lens":lens,"chk_orig":chk_orig,"note":note}));
    let rejected = reference.is_empty();
    if rejected {
        t.class("req:rejected");
        ev_view(t, s);
        // the flow used for the reference already failed once; do it again on fresh ones, repeatedly
        for outs in [[0usize, 16, 65536], [65536, 65536, 3]] {
            let mut b2 = match build_sut(s) {
                Some(b) => b,
                None => return,
            };
            t.ev(json!({"ev":"run"}));
            if outs[0] == 65536 {
                if let Sut::Flow(f) = &mut b2.sut {
                    let _ = guarded(|| f.headers_map().map(|m| m.len()));
                    t.class("srw:after-headers-map");
                }
            }
            let mut acc = vec![];
            for o in outs {
                ev_srw(t, &mut b2.sut, o, &mut acc, usize::MAX);
            }
        }
        return;
    }
    t.class("req:accepted");
    // the reference head itself, with what the body will use
    let chunked_after = match b.sut {
        Sut::Flow(f) => match guarded(|| f.proceed()) {
            Some(Ok(Some(SendRequestResult::SendBody(mut sb)))) => {
                if sb.is_chunked() { "yes" } else { "no" }
            }
            Some(Ok(Some(SendRequestResult::Await100(a)))) => match guarded(|| a.proceed()) {
                Some(Ok(ureq_proto::client::flow::Await100Result::SendBody(mut sb))) => {
                    if sb.is_chunked() { "yes" } else { "no" }
                }
                _ => "na",
            },
            _ => "na",
        },
        _ => "na",
    };
    ev_head(t, &reference, &reference, chunked_after);
    ev_view(t, s);
    let maxline = lens.iter().copied().max().unwrap_or(2);
    for k in 0..nsched {
        let mut b2 = match build_sut(s) {
            Some(b) => b,
            None => return,
        };
        t.ev(json!({"ev":"run"}));
        if k % 2 == 1 {
            // a look at the headers before the first write is read-only
            if let Sut::Flow(f) = &mut b2.sut {
                let _ = guarded(|| f.headers_map().map(|m| m.len()));
                t.class("srw:after-headers-map");
            }
        }
        let sched: Vec<usize> = match k {
            0 => vec![maxline + 2],
            1 => vec![maxline],
            2 => vec![maxline - 1],
            // too small for the next row, then roomy: a refused call must leave nothing behind
            3 => (0..2 * lens.len() + 4).map(|j| if j % 2 == 0 { lens.get(j / 2).copied().unwrap_or(2).saturating_sub(1 + j % 3) } else { 2 * maxline + 8 }).collect(),
            4 => lens.iter().map(|&l| l).collect(),
            5 => lens.iter().enumerate().map(|(i, &l)| if i % 2 == 0 { l.saturating_sub(1) } else { l + 1 }).collect(),
            6 => vec![rng.gen_range(0..maxline + 4)],
            _ => (0..lens.len() + 3).map(|_| [0usize, 1, maxline / 2, maxline, maxline + 2, 2 * maxline + 1, 4 * maxline][rng.gen_range(0..7)]).collect(),
        };
        let mut acc = vec![];
        let mut i = 0;
        let mut overflows = 0;
        let mut steps = 0;
        while acc.len() < reference.len() && steps < 4 * lens.len() + 20 {
            steps += 1;
            let o = sched[i.min(sched.len() - 1)];
            i += 1;
            let r = ev_srw(t, &mut b2.sut, o, &mut acc, reference.len());
            if r == "panic" || r == "err" {
                break;
            }
            if r == "overflow" {
                overflows += 1;
                if i >= sched.len() || overflows > 3 {
                    break;
                }
            }
        }
        let reports_ready = b2.sut.ready().unwrap_or(false);
        if acc.len() != reference.len() && (reports_ready || acc.len() > reference.len()) {
            // the flow says the head is complete (or wrote more than the reference head): judge what is on the wire
            ev_head(t, &acc, &reference, "na");
        }
        if acc.len() == reference.len() {
            // calls made after the head is complete
            if !matches!(b2.sut, Sut::CallWith(_)) {
                for o in [0usize, 5, 65536] {
                    ev_srw(t, &mut b2.sut, o, &mut acc, reference.len());
                }
                t.class("srw:after-complete");
            }
            ev_head(t, &acc, &reference, "na");
        }
    }
}

const XNAMES: [&str; 10] = ["x-a", "x-b", "accept", "user-agent", "x-trace-id", "accept-encoding", "x-a", "via", "x-long-header-name-abcdefghijklmnopqrstuvwxyz", "if-none-match"];

fn gen_value(rng: &mut StdRng) -> Vec<u8> {
    match rng.gen_range(0..7) {
        0 => vec![],
        1 => b"v".to_vec(),
        2 => b"text/html, application/json;q=0.9".to_vec(),
        3 => vec![b'c', b'a', b'f', 0xE9, 0x80, 0xFF, b'!'],
        4 => payload(rng.gen_range(1..200), 6).iter().map(|b| b'!' + (b % 90)).collect(),
        5 => b"a b  c".to_vec(),
        _ => b"1".to_vec(),
    }
}

fn gen_headers(rng: &mut StdRng, n: usize) -> Vec<(String, Vec<u8>)> {
    (0..n).map(|_| (XNAMES[rng.gen_range(0..XNAMES.len())].to_string(), gen_value(rng))).collect()
}

const ALL_METHODS: [&str; 9] = ["GET", "HEAD", "POST", "PUT", "DELETE", "CONNECT", "OPTIONS", "TRACE", "PATCH"];

pub fn c02(o: &Opts, t: &mut Tracer) -> Value {
    let mut rng = rng_for(o.seed, 0xC02);
    let nreq = if o.quick() { 260 } else { 6000 };
    for i in 0..nreq {
        let method = ALL_METHODS[i % 9];
        let version = if matches!(method, "GET" | "HEAD" | "POST") && i % 4 == 0 { "1.0" } else { "1.1" };
        let depth = if i % 5 == 4 { 1 + (i / 5) % 3 } else { 0 };
        let api = if depth > 0 { "flow" } else { ["flow", "flow", "call"][i % 3] };
        let body_method = matches!(method, "POST" | "PUT" | "PATCH");
        let api = if api == "call" { if body_method { "call_with" } else { "call_without" } } else { "flow" };
        let norig = match i % 7 { 0 => 0, 1 => 1, 2 => 60, _ => rng.gen_range(0..12) };
        let nadded = if api == "flow" { match i % 6 { 0 => 0, 1 => 1, 2 => rng.gen_range(20..58), _ => rng.gen_range(0..6) } } else { 0 };
        let mut orig = gen_headers(&mut rng, norig);
        let mut added = gen_headers(&mut rng, nadded);
        // explicit or missing Host
        match i % 4 {
            0 => orig.push(("host".into(), if i % 12 == 8 { vec![] } else { b"explicit.test".to_vec() })),
            1 if api == "flow" => added.push(("Host".into(), b"added-host.test:81".to_vec())),
            _ => {}
        }
        // at most one of Content-Length / Transfer-Encoding: chunked, only where a body is allowed
        let despite = api == "flow" && !body_method && depth == 0 && i % 3 == 1;
        if (body_method && depth == 0) || despite {
            // (taken from another digit than depth / despite, so that every combination occurs, also "despite without framing")
            match (i / 3) % 5 {
                0 => {
                    let v = rng.gen_range(0..100000u32);
                    // (an empty upload declares Content-Length: 0 like any other length)
                    orig.push(("content-length".into(), (if i % 2 == 0 { 0 } else { v }).to_string().into_bytes()))
                }
                1 => orig.push(("transfer-encoding".into(), b"chunked".to_vec())),
                2 if api == "flow" => added.push(("Content-Length".into(), b"7".to_vec())),
                3 if api == "flow" => added.push(("Transfer-Encoding".into(), b"Chunked".to_vec())),
                _ => {}
            }
        }
        if i % 11 == 0 {
            orig.push(("expect".into(), b"100-continue".to_vec()));
        }
        let uri = ["http://h.test/", "http://h.test", "https://h.test:8443/a/b?x=1&y=2", "http://h.test/path%20with/enc?q=%2F", "http://h.test/search?", "http://h.test/a;p=1/b,c?d=e,f&g=[h]"][i % 6].to_string();
        let hops: Vec<(u16, String)> = (0..depth).map(|d| ([302u16, 301, 307][d % 3], ["/r1", "http://other.test/r2?z=1", "../r3"][(i + d) % 3].to_string())).collect();
        // 307 keeps the method and is not followed for body methods: use 302 for those
        let hops: Vec<(u16, String)> = hops.into_iter().map(|(s, l)| if body_method || method == "DELETE" { (302, l) } else { (s, l) }).collect();
        let policy_same_host = i % 2 == 0;
        if depth > 0 && i % 2 == 1 {
            // inherited headers that every redirect suppresses, some of them repeated; ahead of or behind the others
            if i % 4 == 1 {
                orig.insert(0, ("cookie".into(), b"first=1".to_vec()));
                if !policy_same_host {
                    orig.insert(1.min(orig.len()), ("authorization".into(), b"Basic zero".to_vec()));
                }
            }
            orig.push(("cookie".into(), b"a=1".to_vec()));
            orig.push(("x-between".into(), b"1".to_vec()));
            orig.push(("cookie".into(), b"b=2".to_vec()));
            if !policy_same_host {
                orig.push(("authorization".into(), b"Basic one".to_vec()));
                orig.push(("authorization".into(), b"Basic two".to_vec()));
            }
        }
        if depth > 0 && i % 3 != 0 {
            // the caller's own credentials for the redirected request: effective headers like any other added one
            added.insert(added.len() / 2, ("cookie".into(), b"set=by-caller".to_vec()));
            added.push(("Authorization".into(), b"Bearer set-by-caller".to_vec()));
            t.class("c02:credentials-added-on-redirected");
        }
        let s = ReqSpec { method: method.into(), version, uri, orig, added, despite, api, hops, policy_same_host, despite_first: i % 4 < 2, sensitive: i % 5 == 3 || (i / 5) % 2 == 1 };
        t.sig(format!("c02/{}/{}/{}/{}/{}/{}", method, version, api, depth, norig.min(13), nadded.min(7)));
        exercise(t, &s, &mut rng, if o.quick() { 5 } else { 8 }, true, "c02");
    }
    // directed: the original request's credentials under either policy, towards the same host on either scheme and elsewhere
    let mut k = 0usize;
    for ouri in ["http://h.test/a", "https://h.test/a", "https://h.test:8443/a?b=1"] {
        for loc in ["/r1", "http://h.test/plain", "https://h.test/sec", "http://other.test/x", "https://h.test:8443/p", "../up"] {
            for policy_same_host in [true, false] {
                for via in [false, true] {
                    k += 1;
                    // C13 says when the previous request's Authorization MAY be kept, not that it must be: only chains at whose end
                    // it must be absent have a definite set of effective headers
                    let ou: ureq_proto::http::Uri = ouri.parse().unwrap();
                    let (ts, th) = match loc.parse::<ureq_proto::http::Uri>().ok().filter(|u| u.scheme_str().is_some()) {
                        Some(u) => (u.scheme_str().unwrap().to_string(), u.host().unwrap_or("").to_string()),
                        None if via => ("https".to_string(), "mid.test".to_string()),
                        None => (ou.scheme_str().unwrap().to_string(), "h.test".to_string()),
                    };
                    let may_keep = policy_same_host && th == "h.test" && (ts == ou.scheme_str().unwrap() || ts == "https");
                    if may_keep {
                        continue;
                    }
                    let mut hops: Vec<(u16, String)> = vec![];
                    if via {
                        hops.push((302, "https://mid.test/m".to_string()));
                    }
                    hops.push(([302u16, 301, 307, 303][k % 4], loc.to_string()));
                    let orig: Vec<(String, Vec<u8>)> = vec![("authorization".into(), b"Basic same-host-secret".to_vec()), ("x-a".into(), b"1".to_vec()),
                                                           ("cookie".into(), b"c=1".to_vec()), ("authorization".into(), b"Bearer second".to_vec())];
                    let added: Vec<(String, Vec<u8>)> = if k % 3 == 0 { vec![("authorization".into(), b"Bearer set-by-caller".to_vec())] } else { vec![] };
                    let s = ReqSpec { method: ["GET", "HEAD", "OPTIONS"][k % 3].into(), version: "1.1", uri: ouri.into(), orig, added, despite: false, api: "flow", hops, policy_same_host, despite_first: false, sensitive: k % 2 == 1 };
                    t.sig(format!("c02/auth/{}/{}/{}/{}", ouri, loc, policy_same_host, via));
                    t.class("c02:original-credentials-across-redirect");
                    exercise(t, &s, &mut rng, 3, true, "c02");
                }
            }
        }
    }
    json!({})
}

pub fn c16(o: &Opts, t: &mut Tracer) -> Value {
    let mut rng = rng_for(o.seed, 0xC16);
    let nflows = if o.quick() { 300 } else { 8000 };
    let special: [(&str, &[u8]); 27] = [
        ("cookie", b"jar=1"), ("authorization", b"Bearer target-token"), ("content-length", b"0"), ("host", b"override.test"),
        ("host", b"override.test:80"), ("host", b"override.test:443"), ("cookie", b""), ("x-empty", b""), ("authorization", b""),
        ("connection", b"close"), ("Cookie", b"second=2"), ("x-1", b"one"), ("accept", b"*/*"),
        ("cookie", b"name=caf\xe9"), ("authorization", b"Basic \xff\xfe\x80"),
        // the very values the original request carried, set again by the caller
        ("cookie", b"orig-cookie=1"), ("authorization", b"Basic b3JpZw=="), ("x-keep", b"k"),
        ("transfer-encoding", b"chunked"), ("expect", b"100-continue"), ("Expect", b"100-continue"), ("connection", b"keep-alive"), ("te", b"trailers"),
        // values shaped like URIs, dates, lists
        ("referer", b"https://secure.test/page?x=1"), ("origin", b"https://secure.test"), ("if-modified-since", b"Sat, 29 Oct 1994 19:43:31 GMT"), ("accept-encoding", b"gzip, deflate;q=0.5, *;q=0"),
    ];
    for i in 0..nflows {
        let depth = i % 4;
        let method = ["GET", "HEAD", "POST", "OPTIONS", "PUT", "DELETE", "TRACE", "PATCH", "CONNECT"][i % 9];
        let body_method = matches!(method, "POST" | "PUT" | "PATCH");
        let mut orig: Vec<(String, Vec<u8>)> = vec![
            ("cookie".into(), b"orig-cookie=1".to_vec()),
            ("authorization".into(), b"Basic b3JpZw==".to_vec()),
            ("x-keep".into(), b"k".to_vec()),
        ];
        if body_method {
            orig.push(("content-length".into(), b"0".to_vec()));
        }
        orig.extend(gen_headers(&mut rng, i % 5));
        let orig_host = i % 7 >= 5;
        if orig_host {
            // an explicit Host among the original headers (virtual host): still an original header, after the added ones
            orig.insert(i % 3, ("host".into(), b"virtual.test".to_vec()));
            t.class("c16:explicit-original-host");
        }
        let nadd = match i % 8 { 0 => 0, 1 => 1, 2 => 58, _ => rng.gen_range(1..9) };
        let mut added: Vec<(String, Vec<u8>)> = vec![];
        let mut have_host = false;
        let mut have_cl = false;
        // send-body-despite-method on the (bodiless) request that is finally sent, before or after adding the headers
        let final_bodiless = depth > 0 || !body_method;
        let despite = final_bodiless && i % 3 == 0 && method != "HEAD";
        for k in 0..nadd {
            let (n, v) = if k % 3 == 0 || nadd < 4 { special[rng.gen_range(0..special.len())] } else { ("x-n", &b"n"[..]) };
            // keep the request valid (C17): one Host, one Content-Length, no body framing on bodiless methods
            if n == "host" {
                if have_host || orig_host { continue; }
                have_host = true;
            }
            if n == "content-length" {
                // body framing only where a body is sent: with send-body-despite-method (a fresh body flow
                // already has a Content-Length among its original headers)
                if have_cl || !despite { continue; }
                have_cl = true;
                t.class("c16:added-content-length");
            }
            if n == "transfer-encoding" {
                if !despite && !(body_method && depth == 0) { continue; }
                t.class("c16:added-transfer-encoding");
            }
            added.push((n.to_string(), v.to_vec()));
            if k == 1 && i % 3 == 0 {
                // a long row followed by short ones: a small buffer has room for a later row but not for this one
                added.push(("cookie".into(), payload(40 + i % 90, 16).iter().map(|b| b'a' + (b % 26)).collect()));
            }
        }
        // 307 keeps the method (TRACE, OPTIONS, CONNECT ... stay what they are) and is followed for bodiless methods only
        let keep = !body_method && method != "DELETE" && i % 5 == 2;
        let hops: Vec<(u16, String)> = (0..depth).map(|d| (if keep { 307u16 } else { 302 }, ["/next", "http://b.test/x", "https://h.test/s", "../up?q=1"][(i + d) % 4].to_string())).collect();
        if despite && i % 5 == 0 {
            // both framing headers set by the caller, in either order: both must be on the wire
            let cl = ("content-length".to_string(), b"5".to_vec());
            let te = ("transfer-encoding".to_string(), b"chunked".to_vec());
            if !have_cl {
                if i % 2 == 0 { added.push(cl); added.push(te); } else { added.insert(0, te); added.push(cl); }
                t.class("c16:added-both-framing-headers");
            }
        }
        if despite {
            t.class("c16:despite");
        }
        let s = ReqSpec { method: method.into(), version: "1.1", uri: "http://h.test/start/page".into(), orig, added, despite, api: "flow", hops, policy_same_host: i % 2 == 1, despite_first: i % 2 == 0, sensitive: i % 4 == 1 };
        t.sig(format!("c16/{}/{}/{}/{}", method, depth, nadd.min(10), i % 2));
        if depth > 0 && nadd > 0 {
            t.class("c16:added-on-redirected");
        }
        exercise(t, &s, &mut rng, if o.quick() { 5 } else { 8 }, depth == 0, "c16");
    }
    // directed: connection options and transfer codings set by the caller, on HTTP/1.0 and HTTP/1.1 flows, fresh and redirected
    let mut k = 0usize;
    for version in ["1.0", "1.1"] {
        for method in ["GET", "HEAD", "POST"] {
            for depth in [0usize, 1] {
                for set in 0..8usize {
                    k += 1;
                    let body_now = method == "POST" && depth == 0;
                    let despite = !body_now && method != "HEAD" && k % 2 == 0;
                    let coding = set == 3 || set == 4;
                    if coding && (version == "1.0" || !(body_now || despite)) {
                        continue;
                    }
                    let added: Vec<(String, Vec<u8>)> = match set {
                        0 => vec![("connection".into(), b"keep-alive".to_vec()), ("x-a".into(), b"1".to_vec())],
                        1 => vec![("x-a".into(), b"1".to_vec()), ("Connection".into(), b"Keep-Alive".to_vec()), ("keep-alive".into(), b"timeout=5".to_vec())],
                        2 => vec![("connection".into(), b"close".to_vec()), ("connection".into(), b"keep-alive".to_vec())],
                        3 => vec![("x-a".into(), b"1".to_vec()), ("transfer-encoding".into(), b"gzip".to_vec()), ("x-b".into(), b"2".to_vec())],
                        4 => vec![("transfer-encoding".into(), b"gzip".to_vec()), ("transfer-encoding".into(), b"chunked".to_vec())],
                        // a Host with the default port spelled out, empty values: emitted as they were given
                        5 => vec![("host".into(), b"override.test:80".to_vec()), ("x-a".into(), b"1".to_vec())],
                        6 => vec![("cookie".into(), vec![]), ("x-a".into(), b"1".to_vec()), ("x-empty".into(), vec![]), ("authorization".into(), vec![])],
                        _ => vec![("x-a".into(), b"1".to_vec()), ("Host".into(), b"h.test:80".to_vec())],
                    };
                    let mut orig: Vec<(String, Vec<u8>)> = vec![("x-keep".into(), b"k".to_vec()), ("cookie".into(), b"orig-cookie=1".to_vec())];
                    if method == "POST" && !coding {
                        orig.push(("content-length".into(), b"0".to_vec()));
                    }
                    let hops: Vec<(u16, String)> = (0..depth).map(|_| (302u16, "/next".to_string())).collect();
                    let s = ReqSpec { method: method.into(), version, uri: "http://h.test/start/page".into(), orig, added, despite, api: "flow", hops, policy_same_host: k % 2 == 1, despite_first: k % 3 == 0, sensitive: false };
                    t.sig(format!("c16/directed/{}/{}/{}/{}", version, method, depth, set));
                    t.class(if coding { "c16:added-transfer-coding-other-than-chunked" } else if set >= 5 { "c16:added-host-with-port-or-empty-values" } else { "c16:added-connection-option" });
                    if version == "1.0" {
                        t.class("c16:http10-flow");
                    }
                    exercise(t, &s, &mut rng, 3, depth == 0, "c16");
                }
            }
        }
    }
    json!({})
}

pub fn c17(o: &Opts, t: &mut Tracer) -> Value {
    let mut rng = rng_for(o.seed, 0xC17);
    let versions = ["0.9", "1.0", "1.1", "2", "3"];
    let hosts = ["none", "orig", "added", "orig+added", "two-orig", "nontext", "empty"];
    let cls = ["none", "5", "0", "two", "-1", "abc", "nonutf8", "added5", "orig+added", "empty", "list"];
    let tes = ["none", "chunked", "nontext", "added-chunked", "gzip+chunked", "chunked+added-gzip", "gzip"];
    let mut n = 0usize;
    for (vi, v) in versions.iter().enumerate() {
        for (mi, m) in ALL_METHODS.iter().enumerate() {
            for (hi, h) in hosts.iter().enumerate() {
                for (ci, c) in cls.iter().enumerate() {
                    for (ti, te) in tes.iter().enumerate() {
                        for despite in [false, true] {
                            for api in ["flow", "call_without", "call_with", "flow_redirected"] {
                                n += 1;
                                // the same request analysis applies to a flow created by following a redirect
                                let redirected = api == "flow_redirected";
                                let api = if redirected { "flow" } else { api };
                                if api != "flow" && (despite || h.contains("added") || c.contains("added") || te.contains("added")) {
                                    continue;
                                }
                                // quick: stratified sample of the enumeration
                                // (the plainest requests are always taken, whatever the seed)
                                let always = *h == "none" && *c == "none" && *te == "none" && !despite;
                                if o.quick() && !always && (vi * 7 + mi * 5 + hi * 3 + ci * 11 + ti * 13 + despite as usize + n) % 9 != (o.seed % 9) as usize {
                                    continue;
                                }
                                let mut orig: Vec<(String, Vec<u8>)> = vec![("x-a".into(), b"1".to_vec())];
                                let mut added: Vec<(String, Vec<u8>)> = vec![];
                                match *h {
                                    "orig" => orig.push(("host".into(), b"o.test".to_vec())),
                                    "added" => added.push(("host".into(), b"a.test".to_vec())),
                                    // (two Host fields are two too many, whether or not they say the same)
                                    "orig+added" => {
                                        orig.push(("host".into(), b"o.test".to_vec()));
                                        added.push(("Host".into(), if (vi + mi + ci + ti) % 2 == 0 { b"a.test".to_vec() } else { b"o.test".to_vec() }));
                                    }
                                    "two-orig" => {
                                        orig.push(("host".into(), b"o.test".to_vec()));
                                        orig.push(("host".into(), if (vi + mi + ci + ti) % 2 == 1 { b"o2.test".to_vec() } else { b"o.test".to_vec() }));
                                    }
                                    "nontext" => orig.push(("host".into(), vec![b'h', 0xE9, b't'])),
                                    "empty" => orig.push(("host".into(), vec![])),
                                    _ => {}
                                }
                                match *c {
                                    "5" => orig.push(("content-length".into(), b"5".to_vec())),
                                    "0" => orig.push(("content-length".into(), b"0".to_vec())),
                                    "two" => {
                                        orig.push(("content-length".into(), b"5".to_vec()));
                                        orig.push(("content-length".into(), b"5".to_vec()));
                                    }
                                    "-1" => orig.push(("content-length".into(), b"-1".to_vec())),
                                    "abc" => orig.push(("content-length".into(), b"abc".to_vec())),
                                    "nonutf8" => orig.push(("content-length".into(), vec![b'5', 0xFF])),
                                    "added5" => added.push(("content-length".into(), b"5".to_vec())),
                                    "orig+added" => {
                                        orig.push(("content-length".into(), b"5".to_vec()));
                                        added.push(("Content-Length".into(), b"5".to_vec()));
                                    }
                                    "empty" => orig.push(("content-length".into(), vec![])),
                                    "list" => orig.push(("content-length".into(), b"5, 5".to_vec())),
                                    _ => {}
                                }
                                match *te {
                                    "chunked" => orig.push(("transfer-encoding".into(), b"chunked".to_vec())),
                                    "nontext" => orig.push(("transfer-encoding".into(), vec![0xE9, 0xE9])),
                                    "added-chunked" => added.push(("transfer-encoding".into(), b"CHUNKED".to_vec())),
                                    // the coding may sit on a later Transfer-Encoding line
                                    "gzip+chunked" => {
                                        orig.push(("transfer-encoding".into(), b"gzip".to_vec()));
                                        orig.push(("transfer-encoding".into(), b"chunked".to_vec()));
                                    }
                                    "chunked+added-gzip" => {
                                        orig.push(("transfer-encoding".into(), b"Chunked".to_vec()));
                                        added.push(("transfer-encoding".into(), b"gzip".to_vec()));
                                    }
                                    "gzip" => orig.push(("transfer-encoding".into(), b"gzip".to_vec())),
                                    _ => {}
                                }
                                orig.extend(gen_headers(&mut rng, (n % 3) as usize));
                                let hops = if redirected { vec![([302u16, 301, 307, 303][n % 4], ["/next", "http://b.test/x"][(n / 4) % 2].to_string())] } else { vec![] };
                                // an origin-form target and no Host at all is none of the refused classes
                                let uri = if *h == "none" && !redirected && ((always && (vi + mi) % 2 == 0) || (n / 4) % 3 == 0) { "/p?q=1" } else { "http://u.test/p?q=1" };
                                let s = ReqSpec { method: m.to_string(), version: v, uri: uri.into(), orig, added, despite, api, hops, policy_same_host: n % 3 == 0, despite_first: n % 2 == 0, sensitive: false };
                                t.sig(format!("c17/{}/{}/{}/{}/{}/{}/{}/{}", v, m, h, c, te, despite, api, redirected));
                                exercise(t, &s, &mut rng, 1, true, "c17");
                            }
                        }
                    }
                }
            }
        }
    }
    json!({"enumerated": n})
}
