//! hv — conformance harness binding the TLA+ specification in /verif/spec to ureq-proto (/repo).
//! Every subcommand drives the PUBLIC API only and writes one ndjson event per call.
mod drv_br;
mod drv_c01;
mod drv_call;
mod drv_flow;
mod drv_head;
mod drv_hostile;
mod drv_redir;
mod flowbox;
mod drv_req;
mod fx;
mod drv_bw;
mod lex;
mod util;

use std::path::PathBuf;
use util::*;

/// A logger that formats every record of the code under test and throws the text away: with logging switched on (as an
/// application that debugs its HTTP traffic has it) the Debug / Display code behind the log macros runs on every input.
struct Sink;
impl log::Log for Sink {
    fn enabled(&self, _: &log::Metadata) -> bool {
        true
    }
    fn log(&self, r: &log::Record) {
        // (really formatted: a writer that discards its input may skip the formatting altogether)
        let text = format!("{}", r.args());
        std::hint::black_box(&text);
        if LOGDBG.load(std::sync::atomic::Ordering::Relaxed) {
            eprintln!("LOG {}", text);
        }
    }
    fn flush(&self) {}
}
static SINK: Sink = Sink;
static LOGDBG: std::sync::atomic::AtomicBool = std::sync::atomic::AtomicBool::new(false);

fn main() {
    let args: Vec<String> = std::env::args().collect();
    if args.len() < 2 {
        eprintln!("usage: hv <driver> [--tier quick|thorough] [--seed N] [--out DIR] [--shards K] [--scripts FILE]");
        std::process::exit(2);
    }
    let drv = args[1].clone();
    let mut o = Opts { tier: "quick".into(), seed: 1, out: PathBuf::from("work/out"), shards: 8, scripts: None, only: None };
    let mut i = 2;
    while i + 1 < args.len() {
        match args[i].as_str() {
            "--tier" => o.tier = args[i + 1].clone(),
            "--seed" => o.seed = args[i + 1].parse().unwrap_or(1),
            "--out" => o.out = PathBuf::from(&args[i + 1]),
            "--shards" => o.shards = args[i + 1].parse().unwrap_or(8),
            "--scripts" => o.scripts = Some(PathBuf::from(&args[i + 1])),
            "--only" => o.only = Some(args[i + 1].clone()),
            _ => {}
        }
        i += 2;
    }
    if std::env::var("HV_LOUD").is_err() {
        silence_panics();
    }
    if std::env::var("HV_NOLOG").is_err() {
        LOGDBG.store(std::env::var_os("HV_LOGDBG").is_some(), std::sync::atomic::Ordering::Relaxed);
        let _ = log::set_logger(&SINK);
        log::set_max_level(log::LevelFilter::Trace);
    }
    std::fs::create_dir_all(&o.out).ok();
    start_watchdog(o.out.clone(), 40);
    let prop = drv.to_uppercase();
    let mut t = Tracer::new(&o.out, o.shards, &prop, o.only.clone());
    let mut extra = serde_json::json!({});
    // a panic of the harness's own bookkeeping (an answer so far outside its expectations that it cannot go on driving)
    // is data about the code under test, not a crash of the check: it is logged and judged like a panic of the code
    let run = std::panic::catch_unwind(std::panic::AssertUnwindSafe(|| {
        match drv.as_str() {
            "c03" => drv_bw::c03(&o, &mut t),
            "c04" => drv_bw::c04(&o, &mut t),
            "c18" => drv_bw::c18(&o, &mut t),
            "c19" => drv_bw::c19(&o, &mut t),
            "c07" => extra = drv_br::c07(&o, &mut t),
            "c08" => extra = drv_br::c08(&o, &mut t),
            "c05" => extra = drv_head::c05(&o, &mut t),
            "c20" => extra = drv_head::c20(&o, &mut t),
            "c06" => extra = drv_head::c06(&o, &mut t),
            "c09" => extra = drv_flow::c09(&o, &mut t),
            "c10" => extra = drv_flow::c10(&o, &mut t),
            "c11" => extra = drv_flow::c11(&o, &mut t),
            "c13" | "c14" => extra = drv_redir::c13_14(&o, &mut t, drv == "c13"),
            "c15" => extra = drv_redir::c15(&o, &mut t),
            "c12" => extra = drv_hostile::c12(&o, &mut t),
            "c01" => extra = drv_c01::c01(&o, &mut t),
            "x01" => extra = drv_call::x01(&o, &mut t),
            "c02" => extra = drv_req::c02(&o, &mut t),
            "c16" => extra = drv_req::c16(&o, &mut t),
            "c17" => extra = drv_req::c17(&o, &mut t),
            _ => {
                eprintln!("unknown driver {}", drv);
                std::process::exit(2);
            }
        }
    }));
    if let Err(p) = run {
        let msg = p.downcast_ref::<String>().cloned().or_else(|| p.downcast_ref::<&str>().map(|s| s.to_string())).unwrap_or_else(|| "panic".into());
        t.ev(serde_json::json!({"ev":"stuck","during":format!("driving the code under test (harness could not continue: {})", msg.chars().take(120).collect::<String>())}));
    }
    let (c, e) = (t.cases, t.events);
    extra["tier"] = serde_json::json!(o.tier);
    extra["seed"] = serde_json::json!(o.seed);
    t.finish(extra);
    println!("hv {}: {} cases, {} events", drv, c, e);
}
