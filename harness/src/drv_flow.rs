//! Drivers over whole flows: model-script replay + random histories (C09), verdict enumeration (C10),
//! 100-continue handshake (C11).
use crate::flowbox::*;
use crate::util::*;
use serde_json::{json, Value};

const STATUSES: [u16; 17] = [200, 201, 204, 206, 301, 302, 303, 304, 307, 308, 399, 403, 404, 500, 205, 417, 203];

fn fin_from(v: &Value, vsel: usize) -> FinCfg {
    let cell = &v["cell"];
    let status = cell["status"].as_u64().unwrap() as u16;
    FinCfg {
        status,
        resp10: cell["http10"].as_bool().unwrap(),
        cl: cell["cl"].as_str().unwrap().to_string(),
        te: cell["te"].as_str().unwrap().to_string(),
        conn: v["conn"].as_str().unwrap_or("absent").to_string(),
        loc: if (300..400).contains(&status) && vsel % 4 != 3 { Some("/next?x=1".into()) } else { None },
        reason: ["OK", "", "Some Reason Phrase"][vsel % 3].into(),
    }
}

pub fn replay_flow_scripts(o: &Opts, t: &mut Tracer) -> (u64, u64) {
    let debug = std::env::var("HV_DRIFT").is_ok();
    let path = match &o.scripts {
        Some(p) => p.clone(),
        None => return (0, 0),
    };
    let text = std::fs::read_to_string(&path).expect("scripts file");
    let mut n = 0u64;
    let mut drift = 0u64;
    for (li, line) in text.lines().enumerate() {
        if o.quick() && li % 8 != (o.seed % 8) as usize {
            continue;
        }
        let s: Value = serde_json::from_str(line).unwrap();
        if s["kind"] != "flow" {
            continue;
        }
        let c = &s["coding"];
        let r = &c["rq"];
        let rq = RqCfg {
            method: r["method"].as_str().unwrap().into(),
            ver10: r["ver10"].as_bool().unwrap(),
            expect: r["expect"].as_bool().unwrap(),
            connclose: r["connclose"].as_bool().unwrap(),
            despite: r["despite"].as_bool().unwrap(),
            framing: r["framing"].as_str().unwrap().into(),
            conn_other: None, expect_extra: false
        };
        let sv = c["sv"].as_str().unwrap();
        let vsel = li + o.seed as usize;
        let early = if sv == "none" { None } else { Some(EarlyMsg::new(sv, vsel)) };
        let mut sim = match Sim::new(t, rq, early, vsel, "model-script") {
            Some(s) => s,
            None => continue,
        };
        n += 1;
        t.sig(format!("script/{}", li));
        for op in s["ops"].as_array().unwrap() {
            if !sim.alive() {
                break;
            }
            let before = sim.fb.name();
            if op["op"] != "arrive" && op["op"] != "init" && op["st"].as_str().map(|x| x != before).unwrap_or(false) {
                // the real flow is not where the model is: the rest of the script does not apply
                drift += 1;
                if debug {
                    eprintln!("DRIFT script {} : model in {} real in {} before op {}", li, op["st"], before, op);
                }
                break;
            }
            match op["op"].as_str().unwrap() {
                "despite" => sim.op_despite(t),
                "proceed" => sim.op_proceed(t),
                "sr_write" => sim.op_sr_write(t, op["big"].as_bool().unwrap()),
                "try_read_100" => sim.op_try_read_100(t, op["cls"].as_str().unwrap()),
                "sb_write" => sim.op_sb_write(t, op["finish"].as_bool().unwrap(), op["big"].as_bool().unwrap()),
                "try_response" => {
                    let kind = op["kind"].as_str().unwrap();
                    let fin = if kind == "final" { Some(fin_from(op, vsel)) } else { None };
                    sim.op_try_response(t, kind, fin.as_ref());
                }
                "read" => sim.op_read(t, op["all"].as_bool().unwrap()),
                "verdict" => sim.op_verdict(t),
                "status" => sim.op_status(t),
                "can_proceed" => sim.op_can_proceed(t),
                _ => {}
            }
            if op["op"] == "proceed" {
                let predicted = op["res"].as_str().unwrap_or("");
                let got = sim.fb.name();
                if (predicted == "none") != (got == "Dead") || (predicted != "none" && predicted != got) {
                    drift += 1;
                    if debug {
                        eprintln!("DRIFT script {} : proceed predicted {} got {} ({})", li, predicted, got, s["coding"]);
                    }
                }
            }
        }
    }
    (n, drift)
}

pub fn random_rq(rng: &mut StdRng) -> RqCfg {
    let methods = ["GET", "HEAD", "POST", "PUT", "DELETE", "CONNECT", "OPTIONS", "TRACE", "PATCH"];
    let method = methods[rng.gen_range(0..9)];
    let body_m = matches!(method, "POST" | "PUT" | "PATCH");
    let ver10 = matches!(method, "GET" | "HEAD" | "POST") && rng.gen_bool(0.3);
    // (on a method that takes a body anyway the call is a no-op)
    let despite = if body_m { rng.gen_bool(0.15) } else { rng.gen_bool(0.3) };
    // now and then a request that is refused at the first write (framing headers on a method that takes no body)
    let framing = if body_m || despite || rng.gen_bool(0.08) { ["default", "cl0", "cl2", "chunked"][rng.gen_range(0..4)] } else { "default" };
    RqCfg {
        method: method.into(),
        ver10,
        expect: rng.gen_bool(0.5),
        connclose: rng.gen_bool(0.3),
        despite,
        framing: framing.into(),
        conn_other: if rng.gen_bool(0.2) { Some("keep-alive") } else { None }, expect_extra: rng.gen_bool(0.2)
    }
}

pub fn random_fin(rng: &mut StdRng) -> FinCfg {
    let status = if rng.gen_bool(0.8) { STATUSES[rng.gen_range(0..STATUSES.len())] } else { rng.gen_range(101..1000) };
    FinCfg {
        status,
        resp10: rng.gen_bool(0.3),
        cl: ["absent", "zero", "n"][rng.gen_range(0..3)].into(),
        te: ["absent", "absent", "chunked"][rng.gen_range(0..3)].into(),
        conn: ["absent", "close", "keepalive", "two", "proxyclose", "absent", "close", "keepalive"][rng.gen_range(0..8)].into(),
        loc: if (300..400).contains(&status) && rng.gen_bool(0.8) { Some("http://b.test/other".into()) } else { None },
        reason: ["OK", "", "Reason"][rng.gen_range(0..3)].into(),
    }
}

/// One random history over the full menu of calls, including premature advance attempts.
pub fn random_history(t: &mut Tracer, rng: &mut StdRng, note: &str) -> String {
    let rq = random_rq(rng);
    FRAMING_IN_PREPARE.with(|x| x.set(rng.gen_bool(0.3)));
    REPEATED_HEADERS.with(|x| x.set(rng.gen_bool(0.25)));
    let body_due = matches!(rq.method.as_str(), "POST" | "PUT" | "PATCH") || rq.despite;
    let early = if rq.expect && body_due && rng.gen_bool(0.7) {
        Some(EarlyMsg::new(["100", "refuseBare", "refuseFields", "refuseFieldsClose"][rng.gen_range(0..4)], rng.gen_range(0..8)))
    } else if rng.gen_bool(0.15) {
        // an unsolicited interim 100 (no handshake in progress)
        Some(EarlyMsg::new("100", rng.gen_range(0..8)))
    } else {
        None
    };
    let fin = random_fin(rng);
    let premature = rng.gen_range(0..12);
    let sig = format!("{}/{}/{}/{}/{:?}/{}/{}", rq.method, rq.ver10, rq.expect, rq.framing, early.as_ref().map(|e| e.kind.clone()), fin.status / 100, premature);
    let despite = rq.despite;
    let mut sim = match Sim::new(t, rq, early.clone(), rng.gen_range(0..1000), note) {
        Some(s) => s,
        None => return sig,
    };
    let classes: Vec<&str> = match early.as_ref().map(|e| e.kind.as_str()) {
        Some("100") => vec!["nothing", "inStatusLine", "afterStatusLine", "bare100"],
        Some("refuseBare") => vec!["nothing", "inStatusLine", "afterStatusLine", "bareOther"],
        Some(_) => vec!["nothing", "inStatusLine", "afterStatusLine", "otherInFields", "otherFieldLine", "otherComplete"],
        None => vec!["nothing"],
    };
    let mut earr = 0usize;
    let mut steps = 0;
    let mut new_flow_done = false;
    while sim.alive() && steps < 60 {
        steps += 1;
        sim.v = rng.gen_range(0..1000);
        let st = sim.fb.name();
        // a premature advance attempt in a randomly chosen state (it consumes the flow)
        let go_early = steps == premature;
        match st {
            "Prepare" => {
                if despite && steps == 1 {
                    sim.op_despite(t);
                } else {
                    sim.op_proceed(t);
                }
            }
            "SendRequest" => {
                if go_early {
                    sim.op_proceed(t);
                    continue;
                }
                match rng.gen_range(0..6) {
                    0 => sim.op_can_proceed(t),
                    1 | 2 => sim.op_sr_write(t, false),
                    3 | 4 => sim.op_sr_write(t, true),
                    _ => sim.op_proceed(t),
                }
            }
            "Await100" => {
                let keep = match &sim.fb {
                    FlowBox::Await100(f) => f.can_keep_await_100(),
                    _ => false,
                };
                match rng.gen_range(0..5) {
                    0 | 1 if earr + 1 < classes.len() => earr += 1,
                    2 | 3 if keep => sim.op_try_read_100(t, classes[earr]),
                    _ => {
                        if !keep || rng.gen_bool(0.4) {
                            sim.op_proceed(t)
                        }
                    }
                }
            }
            "SendBody" => {
                if go_early {
                    sim.op_proceed(t);
                    continue;
                }
                match rng.gen_range(0..8) {
                    7 => sim.op_sb_direct(t, [0usize, 1, 2, 3][rng.gen_range(0..4)]),
                    0 => sim.op_can_proceed(t),
                    1 => sim.op_sb_write(t, false, false),
                    2 => sim.op_sb_write(t, false, true),
                    3 => sim.op_sb_write(t, true, false),
                    4 | 5 => sim.op_sb_write(t, true, true),
                    _ => sim.op_proceed(t),
                }
            }
            "RecvResponse" => {
                if go_early {
                    sim.op_proceed(t);
                    continue;
                }
                let pending100 = early.as_ref().map(|e| !e.is_refusal()).unwrap_or(false) && !sim.took100;
                if sim.final_seen {
                    if rng.gen_bool(0.2) { sim.op_can_proceed(t) } else { sim.op_proceed(t) }
                } else {
                    match rng.gen_range(0..5) {
                        0 => sim.op_can_proceed(t),
                        1 => sim.op_try_response(t, "partial", Some(&fin)),
                        _ => {
                            if pending100 {
                                sim.op_try_response(t, "late100", Some(&fin))
                            } else {
                                sim.op_try_response(t, "final", Some(&fin))
                            }
                        }
                    }
                }
            }
            "RecvBody" => {
                if go_early {
                    sim.op_proceed(t);
                    continue;
                }
                match rng.gen_range(0..5) {
                    0 => sim.op_can_proceed(t),
                    1 => sim.op_read(t, false),
                    2 | 3 => sim.op_read(t, true),
                    _ => sim.op_proceed(t),
                }
            }
            "Redirect" => match rng.gen_range(0..5) {
                0 => sim.op_verdict(t),
                1 => sim.op_status(t),
                2 if !new_flow_done => {
                    new_flow_done = true;
                    sim.op_new_flow(t, rng.gen_bool(0.5));
                }
                _ => sim.op_proceed(t),
            },
            "Cleanup" => {
                sim.op_verdict(t);
                break;
            }
            _ => break,
        }
    }
    sig
}

pub fn c09(o: &Opts, t: &mut Tracer) -> Value {
    let (n, drift) = replay_flow_scripts(o, t);
    let mut rng = rng_for(o.seed, 0xC09);
    let nrand = if o.quick() { 3000 } else { 150000 };
    for _ in 0..nrand {
        let sig = random_history(t, &mut rng, "random-history");
        t.sig(sig);
    }
    // directed: every early message of the server's repertoire, straight through the exchange
    let mut k = 0usize;
    for kind in ["100", "refuseBare", "refuseFields", "refuseFieldsClose"] {
        for variant in 0..16usize {
            for method in ["POST", "PUT"] {
                k += 1;
                let rq = RqCfg { method: method.into(), ver10: false, expect: true, connclose: k % 5 == 0, despite: false, framing: ["default", "cl2", "chunked"][k % 3].into(), conn_other: None, expect_extra: k % 7 == 0 };
                let fin = FinCfg { status: [200u16, 201, 404, 302][k % 4], resp10: false, cl: "zero".into(), te: "absent".into(), conn: "absent".into(), loc: if k % 4 == 3 { Some("/next".into()) } else { None }, reason: "OK".into() };
                t.sig(format!("handshake/{}/{}/{}", kind, variant, method));
                run_to_cleanup(t, rq, Some(EarlyMsg::new(kind, variant)), false, &fin, variant, "directed-handshake");
            }
        }
    }
    t.class("c09:every-early-message");
    json!({"scripts": n, "model_drift": drift, "random_histories": nrand})
}

/// Drive one exchange straight to the end with the given handshake behaviour; query the verdict in
/// Redirect (if entered) and in Cleanup.
pub fn run_to_cleanup(t: &mut Tracer, rq: RqCfg, early: Option<EarlyMsg>, give_up: bool, fin: &FinCfg, v: usize, note: &str) {
    let despite = rq.despite;
    FRAMING_IN_PREPARE.with(|x| x.set(v % 3 == 1));
    REPEATED_HEADERS.with(|x| x.set(v % 5 == 2));
    let mut sim = match Sim::new(t, rq, early.clone(), v, note) {
        Some(s) => s,
        None => return,
    };
    if despite {
        sim.op_despite(t);
    }
    sim.op_proceed(t);
    sim.op_sr_write(t, true);
    sim.op_proceed(t);
    let mut guard = 0;
    while sim.alive() && guard < 40 {
        guard += 1;
        match sim.fb.name() {
            "Await100" => {
                if !give_up {
                    if let Some(e) = &early {
                        let cls = match e.kind.as_str() {
                            "100" => "bare100",
                            "refuseBare" => "bareOther",
                            _ => ["otherComplete", "otherFieldLine", "otherInFields"][v % 3],
                        };
                        sim.op_try_read_100(t, cls);
                    }
                }
                sim.op_proceed(t);
            }
            "SendBody" => {
                if v % 4 == 2 && sim.rq.framing == "cl2" {
                    // the two declared bytes go to the transport directly; the end is signalled as usual
                    sim.op_sb_direct(t, 2);
                } else {
                    sim.op_sb_write(t, false, true);
                }
                sim.op_sb_write(t, true, true);
                sim.op_proceed(t);
            }
            "RecvResponse" => {
                let pending100 = early.as_ref().map(|e| !e.is_refusal()).unwrap_or(false) && !sim.took100;
                if pending100 {
                    sim.op_try_response(t, "late100", Some(fin));
                }
                sim.op_try_response(t, "final", Some(fin));
                sim.op_proceed(t);
            }
            "RecvBody" => {
                sim.drain_body(t);
                sim.op_proceed(t);
            }
            "Redirect" => {
                sim.op_verdict(t);
                sim.op_status(t);
                t.class("verdict:redirect");
                sim.op_proceed(t);
            }
            "Cleanup" => {
                sim.op_verdict(t);
                t.class("verdict:cleanup");
                break;
            }
            _ => break,
        }
    }
}

pub fn c10(o: &Opts, t: &mut Tracer) -> Value {
    let mut n = 0u64;
    let methods = ["GET", "HEAD", "POST", "PUT", "CONNECT"];
    let handshakes = ["none", "100", "timeout", "late100", "refuseBare", "refuseFields", "refuseFieldsClose", "stray100"];
    let statuses = [200u16, 204, 302, 304, 403, 205, 201, 500, 417];
    let framings = [("absent", "absent"), ("zero", "absent"), ("n", "absent"), ("absent", "chunked"), ("n", "chunked")];
    let conns = ["absent", "close", "keepalive", "two", "proxyclose"];
    for ver10 in [false, true] {
        for (rci, rconn) in ["absent", "close", "keepalive", "two"].iter().enumerate() {
            for (mi, m) in methods.iter().enumerate() {
                if ver10 && !matches!(*m, "GET" | "HEAD" | "POST") {
                    continue;
                }
                let body_m = matches!(*m, "POST" | "PUT");
                for (hi, hs) in handshakes.iter().enumerate() {
                    if *hs != "none" && *hs != "stray100" && !body_m {
                        continue;
                    }
                    for resp10 in [false, true] {
                        for (si, st) in statuses.iter().enumerate() {
                            for (fi, (cl, te)) in framings.iter().enumerate() {
                                for (ci, conn) in conns.iter().enumerate() {
                                    n += 1;
                                    if o.quick() && (n + (rci + mi + hi + si + fi + ci) as u64) % 11 != o.seed % 11 {
                                        continue;
                                    }
                                    let rq = RqCfg {
                                        method: m.to_string(), ver10, expect: *hs != "none" && *hs != "stray100", connclose: *rconn == "close" || *rconn == "two",
                                        despite: false, framing: if body_m { ["default", "cl2", "chunked", "cl0"][((n / 3) % 4) as usize].into() } else { "default".into() },
                                        conn_other: if *rconn == "keepalive" || *rconn == "two" { Some("keep-alive") } else { None }, expect_extra: false
                                    };
                                    let early = match *hs {
                                        // "stray100": an interim 100 nobody asked for is handed to the caller before the final response
                                        "100" | "late100" | "stray100" => Some(EarlyMsg::new("100", n as usize)),
                                        "refuseBare" | "refuseFields" | "refuseFieldsClose" => Some(EarlyMsg::new(hs, n as usize)),
                                        _ => None,
                                    };
                                    let fin = FinCfg { status: *st, resp10, cl: cl.to_string(), te: te.to_string(), conn: conn.to_string(),
                                                       loc: if *st == 302 && n % 5 != 0 { Some("/n".into()) } else { None }, reason: "R".into() };
                                    t.sig(format!("c10/{}/{}/{}/{}/{}/{}/{}/{}/{}", ver10, rconn, m, hs, resp10, st, cl, te, conn));
                                    if hs.starts_with("refuse") {
                                        t.class("c10:refusal");
                                    }
                                    // now and then the response starts with legal header fields of little content
                                    EXTRA_HEAD_LINES.with(|x| *x.borrow_mut() = ["", "", "X-Powered-By:\r\n", "Set-Cookie: \r\nServer:\r\n"][(n % 4) as usize].to_string());
                                    run_to_cleanup(t, rq, early, *hs == "late100" || *hs == "timeout", &fin, n as usize, "c10");
                                }
                            }
                        }
                    }
                }
            }
        }
    }
    EXTRA_HEAD_LINES.with(|x| x.borrow_mut().clear());
    // a 3xx head cut after a complete Location line (known finding KF1 makes the code answer early): whatever else
    // the head says (Connection: keep-alive ...), the connection has lost its message boundary and must close
    let mut ntrunc = 0;
    for (k, conn) in ["", "Connection: keep-alive\r\n", "connection: Keep-Alive\r\nX-A: 1\r\n", "Connection: keep-alive\r\nConnection: keep-alive\r\n"].iter().enumerate() {
        for status in [301u16, 302, 307, 308] {
            for tail in ["", "X-More: 1\r\n", "X-More: 1\r\nSet-Coo"] {
                for conn_after in [false, true] {
                    let head = if conn_after {
                        format!("HTTP/1.1 {} Moved\r\nLocation: /next\r\n{}{}", status, conn, tail)
                    } else {
                        format!("HTTP/1.1 {} Moved\r\n{}Location: /next\r\n{}", status, conn, tail)
                    };
                    let rq = RqCfg { method: "GET".into(), ver10: false, expect: false, connclose: false, despite: false, framing: "default".into(), conn_other: None, expect_extra: false };
                    let mut sim = match Sim::new(t, rq, None, k, "c10-truncated-3xx") {
                        Some(s) => s,
                        None => continue,
                    };
                    ntrunc += 1;
                    t.sig(format!("c10/trunc/{}/{}/{}/{}", k, status, tail.len(), conn_after));
                    sim.op_proceed(t);
                    sim.op_sr_write(t, true);
                    sim.op_proceed(t);
                    sim.try_response_raw(t, "truncated3xx", head.as_bytes(), status);
                    if sim.final_seen {
                        t.class("c10:truncated-3xx-answered");
                        sim.op_proceed(t);
                        sim.op_verdict(t);
                        sim.op_proceed(t);
                        sim.op_verdict(t);
                    }
                }
            }
        }
    }
    // every final status on an exchange where none of the five conditions holds (and with the response asking to keep the
    // connection): the verdict does not depend on what the status says
    for st in (101u16..=199).chain(200u16..=999) {
        if o.quick() && st >= 600 && st % 25 != 24 {
            continue;
        }
        for (k, conn) in ["absent", "keepalive"].iter().enumerate() {
            let method = ["GET", "POST", "HEAD"][(st as usize + k) % 3];
            let rq = RqCfg { method: method.into(), ver10: false, expect: false, connclose: false, despite: false, framing: if method == "POST" { "cl2".into() } else { "default".into() }, conn_other: None, expect_extra: false };
            let fin = FinCfg { status: st, resp10: false, cl: ["zero", "n"][(st as usize / 2) % 2].into(), te: "absent".into(), conn: conn.to_string(), loc: None, reason: "R".into() };
            t.sig(format!("c10/status/{}/{}", st, conn));
            run_to_cleanup(t, rq, None, false, &fin, st as usize, "status-sweep");
            n += 1;
        }
    }
    t.class("c10:every-status-without-a-condition");
    json!({"combinations": n, "truncated_3xx": ntrunc})
}

pub fn c11(o: &Opts, t: &mut Tracer) -> Value {
    let mut rng = rng_for(o.seed, 0xC11);
    let mut histories = 0u64;
    let kinds = ["100", "refuseBare", "refuseFields", "refuseFieldsClose"];
    let rounds = if o.quick() { 1 } else { 100 };
    for round in 0..rounds {
        for ver10 in [false, true] {
            for (ki, kind) in kinds.iter().enumerate() {
                for variant in 0..10usize {
                    let early = EarlyMsg::new(kind, variant);
                    let total = early.bytes.len();
                    // the caller looks at every prefix length (cumulatively re-presented), then both later paths
                    for give_up_at in 0..=total + 1 {
                        if o.quick() && (give_up_at + variant + ki) % 3 != (o.seed % 3) as usize && give_up_at < total.saturating_sub(3) && give_up_at > 2 {
                            continue;
                        }
                        // bodiless methods take part through send-body-despite-method
                        let method = ["POST", "PUT", "PATCH", "GET", "POST", "DELETE", "PUT"][(give_up_at + round) % 7];
                        let despite = matches!(method, "GET" | "DELETE");
                        if ver10 && !matches!(method, "POST" | "GET") {
                            continue;
                        }
                        if despite {
                            t.class("c11:despite-method");
                        }
                        let connclose = (give_up_at + variant + round) % 3 == 0;
                        let rq = RqCfg { method: method.into(), ver10, expect: true, connclose, despite,
                                         framing: ["default", "cl2", "chunked", "cl0"][(variant + give_up_at / 2 + round) % 4].into(),
                                         conn_other: if (give_up_at + variant) % 4 == 1 { Some("keep-alive") } else { None }, expect_extra: (give_up_at + 2 * variant) % 5 == 2 };
                        let fin = random_fin(&mut rng);
                        FRAMING_IN_PREPARE.with(|x| x.set((variant + give_up_at) % 4 == 2));
                        let mut sim = match Sim::new(t, rq, Some(early.clone()), give_up_at, "c11") {
                            Some(s) => s,
                            None => continue,
                        };
                        histories += 1;
                        t.sig(format!("c11/{}/{}/{}/{}", kind, variant, ver10, give_up_at));
                        if despite {
                            sim.op_despite(t);
                        }
                        sim.op_proceed(t);
                        sim.op_sr_write(t, true);
                        sim.op_proceed(t);
                        // look at growing prefixes: p = 0, then every length up to give_up_at
                        let mut consumed = 0usize;
                        // even rounds of variants: the caller looks at every growing prefix; odd: it looks only once, at give_up_at
                        let single_look = (variant + give_up_at) % 2 == 1;
                        for p in 0..=give_up_at.min(total) {
                            if single_look && p != give_up_at.min(total) {
                                continue;
                            }
                            let keep = match &sim.fb {
                                FlowBox::Await100(f) => f.can_keep_await_100(),
                                _ => false,
                            };
                            if !keep {
                                break;
                            }
                            if o.quick() && p > 2 && p + 3 < give_up_at.min(total) && p % 4 != 0 {
                                continue;
                            }
                            let cls = classify_prefix(&early, p);
                            if cls == "bare100" && (variant + give_up_at + round) % 3 == 1 {
                                // the first bytes of what the server sends next are already behind the interim response
                                let mut w = early.bytes.clone();
                                let nxt = fin.head();
                                w.extend(&nxt[..(1 + (give_up_at + variant) % nxt.len())]);
                                consumed = sim.try_read_100_bytes(t, cls, &w, total);
                                t.class("c11:bytes-behind-the-100");
                            } else {
                                consumed = sim.try_read_100_bytes(t, cls, &early.bytes[..p], total);
                            }
                            t.class(&format!("c11:{}", cls));
                        }
                        let _ = consumed;
                        // a caller that polls once more before asking can_keep_await_100(): a refusal stays a refusal,
                        // consumes nothing and changes nothing, however often it is looked at
                        if early.is_refusal() && give_up_at >= total && (variant + give_up_at + round) % 2 == 0 {
                            if let FlowBox::Await100(f) = &sim.fb {
                                if !f.can_keep_await_100() {
                                    t.class("c11:looked-again-after-refusal");
                                    for _ in 0..(1 + (variant + round) % 4) {
                                        let cls = classify_prefix(&early, total);
                                        sim.try_read_100_bytes(t, cls, &early.bytes[..total], total);
                                    }
                                }
                            }
                        }
                        // continue to the very end on whichever path the flow takes
                        sim.op_proceed(t);
                        let mut guard = 0;
                        while sim.alive() && guard < 30 {
                            guard += 1;
                            match sim.fb.name() {
                                "SendBody" => {
                                    sim.op_sb_write(t, false, true);
                                    sim.op_sb_write(t, true, true);
                                    sim.op_proceed(t);
                                }
                                "RecvResponse" => {
                                    let pending100 = !early.is_refusal() && !sim.took100;
                                    if pending100 {
                                        t.class("c11:late100");
                                        if give_up_at % 2 == 0 {
                                            sim.op_try_response(t, "partial", Some(&fin));
                                        }
                                        sim.op_try_response(t, "late100", Some(&fin));
                                        if give_up_at % 3 == 0 {
                                            // the server repeats the interim response: skipped once only
                                            sim.took100 = false;
                                            sim.op_try_response(t, "late100", Some(&fin));
                                            sim.took100 = true;
                                            t.class("c11:second-100");
                                        }
                                    }
                                    sim.op_try_response(t, "final", Some(&fin));
                                    sim.op_proceed(t);
                                }
                                "RecvBody" => {
                                    sim.drain_body(t);
                                    sim.op_proceed(t);
                                }
                                "Redirect" => {
                                    sim.op_verdict(t);
                                    // "usable to completion" includes following the redirect the exchange ended in
                                    sim.op_new_flow(t, (variant + give_up_at) % 2 == 0);
                                    t.class("c11:redirect-followed");
                                    sim.op_proceed(t);
                                }
                                "Cleanup" => {
                                    sim.op_verdict(t);
                                    t.class("c11:completed");
                                    break;
                                }
                                _ => break,
                            }
                        }
                    }
                }
            }
        }
    }
    json!({"histories": histories})
}

/// class of the first p bytes of an early message (see Flow.tla Read100Fails)
pub fn classify_prefix(e: &EarlyMsg, p: usize) -> &'static str {
    let total = e.bytes.len();
    if p == 0 {
        "nothing"
    } else if p < e.sl {
        "inStatusLine"
    } else if p < total && (p == e.sl || (p == e.sl + 1 && e.first_field_end == e.sl)) {
        "afterStatusLine"
    } else if p >= total {
        if !e.is_refusal() {
            "bare100"
        } else if e.first_field_end == e.sl {
            "bareOther"
        } else {
            "otherComplete"
        }
    } else if p < e.first_field_end {
        "otherInFields"
    } else {
        "otherFieldLine"
    }
}
