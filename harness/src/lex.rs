//! Projections ("sensors"): bytes -> the tokens the specification speaks about.
use serde_json::{json, Value};

fn find_crlf(b: &[u8], from: usize) -> Option<usize> {
    if b.len() < 2 {
        return None;
    }
    (from..b.len() - 1).find(|&i| b[i] == b'\r' && b[i + 1] == b'\n')
}

pub struct ChunkLex {
    pub chunks: Vec<Value>,
    pub term: usize,
    pub termlen: usize,
    pub junk: bool,
    pub data_total: usize,
}

/// Lex bytes produced by a chunked body write. `input` is the slice offered to that call:
/// chunk data must equal consecutive pieces of it.
pub fn lex_chunks(out: &[u8], input: &[u8]) -> ChunkLex {
    let mut r = ChunkLex { chunks: vec![], term: 0, termlen: 0, junk: false, data_total: 0 };
    let mut pos = 0;
    let mut in_off = 0;
    while pos < out.len() {
        let crlf = match find_crlf(out, pos) {
            Some(v) => v,
            None => {
                r.junk = true;
                break;
            }
        };
        let line = &out[pos..crlf];
        let digits = line.iter().take_while(|c| c.is_ascii_hexdigit()).count();
        if digits == 0 || digits > 15 || (digits < line.len() && line[digits] != b';') {
            r.junk = true;
            break;
        }
        let size =
            usize::from_str_radix(std::str::from_utf8(&line[..digits]).unwrap(), 16).unwrap();
        if size == 0 {
            if out.len() >= crlf + 4 && &out[crlf + 2..crlf + 4] == b"\r\n" {
                r.term += 1;
                r.termlen += crlf + 4 - pos;
                pos = crlf + 4;
                continue;
            }
            r.junk = true;
            break;
        }
        let dstart = crlf + 2;
        let avail = out.len() - dstart;
        let dlen = size.min(avail);
        let data = &out[dstart..dstart + dlen];
        let data_ok = in_off + dlen <= input.len() && data == &input[in_off..in_off + dlen];
        r.chunks.push(json!({"hdr": line.len(), "digits": digits, "size": size, "dlen": dlen, "data_ok": data_ok}));
        r.data_total += dlen;
        in_off += dlen;
        if dlen < size {
            r.junk = true;
            break;
        }
        let dend = dstart + size;
        if out.len() >= dend + 2 && &out[dend..dend + 2] == b"\r\n" {
            pos = dend + 2;
        } else {
            r.junk = true;
            break;
        }
    }
    r
}
