SPECIFICATION Spec
CONSTANTS
  Schemes = {"http", "https"}
  Hosts = {"a.test", "b.test"}
  Ports = {0, 8080}
  BasePathIdx = {2, 3}
  Queries = {"-", "k=1"}
  RelSegs = {"p", ".", ".."}
  MaxRel = 2
  StatusSet = {303, 307}
  MethodSet = {"GET", "POST"}
  MaxHops = 2
  Defects = {"AuthAgainstPreviousHop"}
  DumpEdges = FALSE
VIEW view
ACTION_CONSTRAINT Edge
INVARIANTS Refines DeadEndsOk
CHECK_DEADLOCK FALSE
