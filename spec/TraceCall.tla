------------------------------- MODULE TraceCall -------------------------------
(* Trace validation of the single-call API against CallApi (extra, id "X01"; not a listed property).
   Events (harness/src/drv_call.rs):
     case   [id, prop, with_body]
     cfin   [val]                        is_finished()
     cwrite [res, head_done, wended]     write(): tracker takes head / body completion from the harness's lexers
     crecv  [res]                        into_receive()
     cresp  [kind, res, mode]            try_response(): final head with the body mode its framing prescribes
     cbody  [res]                        into_body()
     cq     [closedelim, ended]          is_close_delimited() / is_ended()
     panic  [during]                                                                      *)
EXTENDS CallApi, TraceCommon, IOUtils

Rec == ndJsonDeserialize(IOEnv.TRACE)
N == Len(Rec)

VARIABLES l, c, cs, viol, nv, dev
vars == <<l, c, cs, viol, nv, dev>>

Init ==
  /\ l = 1
  /\ c = InitCall(FALSE)
  /\ cs = [id |-> "none", prop |-> "X01"]
  /\ viol = <<>>
  /\ nv = [mine |-> 0, other |-> 0]
  /\ dev = 0

Step(fails) ==
  /\ viol' = AddViol(viol, l, cs.id, fails)
  /\ nv' = [mine |-> nv.mine + Cardinality(Mine(fails)), other |-> nv.other + Cardinality(fails \ Mine(fails))]
  /\ l' = l + 1

E == Rec[l]

TCase == E.ev = "case" /\ c' = InitCall(E.with_body) /\ cs' = [id |-> E.id, prop |-> E.prop] /\ Step({}) /\ UNCHANGED dev
TFin == E.ev = "cfin" /\ Step(FinishedFails(c, E)) /\ UNCHANGED <<c, cs, dev>>
TWrite ==
  /\ E.ev = "cwrite"
  /\ Step({})
  /\ c' = [c EXCEPT !.head = @ \/ E.head_done, !.wended = IF c.st = "WithBody" THEN E.wended ELSE @]
  /\ UNCHANGED <<cs, dev>>
TRecv ==
  /\ E.ev = "crecv"
  /\ Step(IntoReceiveFails(c, E, Known))
  /\ dev' = dev + (IF c.st = "WithoutBody" /\ ~c.head /\ E.res = "ok" THEN 1 ELSE 0)
  /\ c' = IF E.res = "ok" THEN [c EXCEPT !.st = "RecvResponse"] ELSE [c EXCEPT !.st = "Done"]
  /\ UNCHANGED cs
TResp ==
  /\ E.ev = "cresp"
  /\ Step(XClause("a partial head must not be answered", E.kind = "partial" => E.res = "none")
          \cup XClause("a complete head must be answered", E.kind = "final" => E.res = "some"))
  /\ c' = IF E.kind = "final" /\ E.res = "some" THEN [c EXCEPT !.resp = TRUE, !.mode = E.mode] ELSE c
  /\ UNCHANGED <<cs, dev>>
TBody ==
  /\ E.ev = "cbody"
  /\ Step(IntoBodyFails(c, E))
  /\ c' = IF E.res = "body" THEN [c EXCEPT !.st = "RecvBody"] ELSE [c EXCEPT !.st = "Done"]
  /\ UNCHANGED <<cs, dev>>
TQ == E.ev = "cq" /\ Step(BodyQueriesFails(c, E)) /\ UNCHANGED <<c, cs, dev>>
TPanic == E.ev \in {"panic", "stuck"} /\ Step({<<"X01", E.ev \o " during " \o E.during>>}) /\ UNCHANGED <<c, cs, dev>>

Next == l <= N /\ (TCase \/ TFin \/ TWrite \/ TRecv \/ TResp \/ TBody \/ TQ \/ TPanic)
Spec == Init /\ [][Next]_vars

Report == l = N + 1 => Verdict(N, viol, nv, [comp |-> "Call", dev |-> [ReceiveBeforeHead |-> dev]])
Consumed == TLCGet("stats").diameter = N + 1 \/ PrintT("UNMATCHED " \o ToString(TLCGet("stats").diameter))
=============================================================================
