------------------------------ MODULE SizedInd ------------------------------
(* Unbounded-N companion of the sized-body accounting invariants of C04 / C08, for Apalache:
   with IndInv as an inductive invariant (Init => IndInv, IndInv /\ Next => IndInv') the
   statements "accounted + left = N", "never beyond N", "finished only at N" hold for EVERY
   Content-Length N and every call sequence, not only for the N <= 8 that TLC enumerates.
   The step relation is the Abs guard of BodyWriter (exact min of three, refusal without effect).

   apalache-mc check --init=Init --inv=IndInv --length=0 SizedInd.tla
   apalache-mc check --init=IndInit --inv=IndInv --length=1 SizedInd.tla                 *)
EXTENDS Integers

VARIABLES
  \* @type: Int;
  n,
  \* @type: Int;
  left,
  \* @type: Int;
  acc,
  \* @type: Bool;
  ready

Min2(a, b) == IF a < b THEN a ELSE b

Init == /\ n \in Nat /\ left = n /\ acc = 0 /\ ready = FALSE

Write ==
  \E inl \in Nat, outl \in Nat :
    IF inl > left
    THEN UNCHANGED <<n, left, acc, ready>>                       \* refused, no effect
    ELSE LET k == Min2(Min2(inl, outl), left)
         IN /\ left' = left - k /\ acc' = acc + k /\ ready' = (left - k = 0) /\ UNCHANGED n

Direct ==
  \E amt \in Nat :
    IF amt > left
    THEN UNCHANGED <<n, left, acc, ready>>
    ELSE /\ left' = left - amt /\ acc' = acc + amt /\ ready' = (left - amt = 0) /\ UNCHANGED n

Next == Write \/ Direct

IndInv ==
  /\ n >= 0 /\ left >= 0 /\ acc >= 0
  /\ acc + left = n
  /\ (ready => left = 0)

IndInit == n \in Int /\ left \in Int /\ acc \in Int /\ ready \in BOOLEAN /\ IndInv
=============================================================================
