------------------------------ MODULE LengthInd ------------------------------
(* Unbounded-N companion of C08's invariants for a Content-Length response body, for Apalache:
   reads move min(window, output space, remaining); with IndInv inductive, "never beyond N",
   "delivered = consumed" and "complete iff N delivered" hold for every N, every arrival
   schedule (the window may extend arbitrarily far into the following response) and every
   output size.
   apalache-mc check --init=Init --inv=IndInv --length=0 LengthInd.tla
   apalache-mc check --init=IndInit --inv=IndInv --length=1 LengthInd.tla                 *)
EXTENDS Integers

VARIABLES
  \* @type: Int;
  n,
  \* @type: Int;
  left,
  \* @type: Int;
  pos,
  \* @type: Int;
  delivered,
  \* @type: Bool;
  ready

Min2(a, b) == IF a < b THEN a ELSE b

Init == /\ n \in Nat /\ left = n /\ pos = 0 /\ delivered = 0 /\ ready = (n = 0)

Read ==
  \E w \in Nat, outl \in Nat :
    LET k == Min2(Min2(w, outl), left)
    IN /\ left' = left - k /\ pos' = pos + k /\ delivered' = delivered + k
       /\ ready' = (left - k = 0) /\ UNCHANGED n

Next == Read

IndInv ==
  /\ n >= 0 /\ left >= 0 /\ pos >= 0
  /\ pos + left = n
  /\ delivered = pos
  /\ pos <= n
  /\ (ready <=> left = 0)

IndInit == n \in Int /\ left \in Int /\ pos \in Int /\ delivered \in Int /\ ready \in BOOLEAN /\ IndInv
=============================================================================
