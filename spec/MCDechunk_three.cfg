SPECIFICATION Spec
CONSTANTS
  NChunks = 3
  Sizes = {1, 2}
  ZeroSet = {0}
  ExtSet = {"none"}
  TrailerSet = {0, 1}
  OutSet = {0, 1, 2, 64}
  Hostile = FALSE
  Alphabet = {}
  MaxLen = 0
  DumpEdges = FALSE
  ToggleStop = TRUE
VIEW view
ACTION_CONSTRAINT Edge
INVARIANTS Refines NoPanic NoErrOnValid NoOverRead AllPayload EndedIff
CHECK_DEADLOCK FALSE
