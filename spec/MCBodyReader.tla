---------------------------- MODULE MCBodyReader ----------------------------
(* Bounded model of the length- and close-delimited response body readers (C08).
   Layer "Impl": read_limit / read_unlimit as in src/body.rs:377-391,429-435.
   Layer "Abs" : any answer the Abs guards accept.  The stream is the N body bytes
   followed by TailLen bytes of a following response, which must stay unconsumed.   *)
EXTENDS BodyReader, TLC

CONSTANTS NSet, TailLen, OutSet, Layer, Kind

VARIABLES n0, avail, s, ready, last
vars == <<n0, avail, s, ready, last>>
\* `last` is hidden from the fingerprint, except for whether the step failed a clause: otherwise a failing step that
\* leaves the rest of the state unchanged would be merged with its predecessor and never be evaluated by Refines
view == <<n0, avail, s, ready, last.fails # {}>>

Total == IF Kind = "length" THEN n0 + TailLen ELSE n0

Init ==
  /\ n0 \in NSet
  /\ avail = 0
  /\ s = [pos |-> 0, delivered |-> 0, left |-> BigOf(n0)]
  /\ ready = (Kind = "close" \/ n0 = 0)
  /\ last = [op |-> "init", fails |-> {}]

Arrive(k) ==
  /\ avail < Total
  /\ avail' = RMin2(avail + k, Total)
  /\ last' = [op |-> "arrive", fails |-> {}]
  /\ UNCHANGED <<n0, s, ready>>

Fails(e) == IF Kind = "length" THEN LengthReadFails(s, e) ELSE CloseReadFails(s, e)

Events(w, o) ==
  IF Layer = "Impl"
  THEN LET k == IF Kind = "length" THEN BigMinNat(RMin2(w, o), s.left) ELSE RMin2(w, o)
       IN { [w |-> w, outl |-> o, res |-> "ok", c |-> k, p |-> k, content_ok |-> TRUE,
             ready |-> IF Kind = "length" THEN BigIsZero(BigSub(s.left, BigOf(k))) ELSE TRUE] }
  ELSE { e \in { [w |-> w, outl |-> o, res |-> "ok", c |-> c, p |-> p, content_ok |-> TRUE, ready |-> r]
                 : c \in 0..w, p \in 0..o, r \in BOOLEAN } : Fails(e) = {} }

Read(o) ==
  /\ \E e \in Events(avail - s.pos, o) :
       /\ last' = [op |-> "read", e |-> e, fails |-> Fails(e)]
       /\ s' = [pos |-> s.pos + e.c, delivered |-> s.delivered + e.p,
                left |-> IF Kind = "length" THEN BigSub(s.left, BigOf(e.c)) ELSE s.left]
       /\ ready' = e.ready
  /\ UNCHANGED <<n0, avail>>

Next == Arrive(1) \/ Arrive(Total) \/ \E o \in OutSet : Read(o)
Spec == Init /\ [][Next]_vars

Refines        == last.fails = {}
NeverBeyondN   == Kind = "length" => s.pos <= n0
Verbatim       == s.delivered = s.pos
CompleteIffN   == Kind = "length" => (ready <=> s.pos = n0)
CloseAlwaysReady == Kind = "close" => ready
=============================================================================
