----------------------------- MODULE TraceCommon -----------------------------
(* Shared plumbing of the trace specifications (section 5 of DESIGN.md).

   A trace is an ndjson file, one event per public call of the real library, written by
   the harness.  A trace specification reads it (IOEnv.TRACE), advances the specification
   state with the LOGGED result of every call (so it can follow any execution), and
   evaluates the Abs guards of the component on every step.  A guard that does not hold is
   appended to the variable `viol` together with the event index, the property it belongs
   to and the clause: the trace is a behaviour of the specification iff `viol` is empty at
   the end.  (Equivalently: with the guards as enabling conditions the trace specification
   would deadlock at the first listed index; recording instead of blocking lets one TLC
   run judge the whole file and keeps known findings from hiding later events.)           *)
EXTENDS Naturals, Sequences, FiniteSets, SequencesExt, Json, TLC

CONSTANTS Checked,   \* the property whose guards decide this run (others are only counted)
          Known      \* names of deviations listed in /verif/known_findings.txt

ViolCap == 40
Mine(fails) == { f \in fails : f[1] = Checked }

AddViol(v, idx, caseId, fails) ==
  IF Mine(fails) = {} \/ Len(v) >= ViolCap THEN v
  ELSE v \o SetToSeq({ [l |-> idx, id |-> caseId, p |-> f[1], why |-> f[2]] : f \in Mine(fails) })

\* printed once, in the final state; parsed by bin/check
Verdict(n, v, nv, extra) ==
  PrintT("VERDICT " \o ToJson([events |-> n, nviol |-> nv, viol |-> v, extra |-> extra]))

Has(e, f) == f \in DOMAIN e
Get(e, f, d) == IF f \in DOMAIN e THEN e[f] ELSE d
=============================================================================
