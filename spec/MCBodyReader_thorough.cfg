SPECIFICATION Spec
CONSTANTS
  NSet = {0, 1, 2, 3, 4, 5, 6, 7, 8}
  TailLen = 3
  OutSet = {0, 1, 2, 3, 4, 5, 7, 8, 9, 12}
  Layer = "Abs"
  Kind = "length"
VIEW view
INVARIANTS Refines NeverBeyondN Verbatim CompleteIffN CloseAlwaysReady
CHECK_DEADLOCK FALSE
