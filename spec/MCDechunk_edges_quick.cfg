SPECIFICATION Spec
CONSTANTS
  NChunks = 1
  Sizes = {3}
  ZeroSet = {0, 1}
  ExtSet = {"none", "x"}
  TrailerSet = {0, 1}
  OutSet = {0, 1, 2, 64}
  Hostile = FALSE
  Alphabet = {}
  MaxLen = 0
  DumpEdges = TRUE
  ToggleStop = TRUE
VIEW view
ACTION_CONSTRAINT Edge
INVARIANTS Refines NoPanic NoErrOnValid NoOverRead AllPayload EndedIff
CHECK_DEADLOCK FALSE
