---------------------------- MODULE TraceRedirect ----------------------------
(* Trace validation of redirect following (C13, C14, C15).
   Events (harness/src/drv_redir.rs):
     case   [id, prop]
     hop    [status, method, policy, orig, cur, ref, res, uri, newmethod, target, hostline, auth, cookie, clen]
     landed [status, withbody, state, reported]   state entered after a 3xx response (and its body)
     panic  [during]                                                                      *)
EXTENDS Redirect, TraceCommon, IOUtils

Rec == ndJsonDeserialize(IOEnv.TRACE)
N == Len(Rec)

VARIABLES l, cs, viol, nv
vars == <<l, cs, viol, nv>>

Init ==
  /\ l = 1
  /\ cs = [id |-> "none", prop |-> "C14"]
  /\ viol = <<>>
  /\ nv = [mine |-> 0, other |-> 0]

Step(fails) ==
  /\ viol' = AddViol(viol, l, cs.id, fails)
  /\ nv' = [mine |-> nv.mine + Cardinality(Mine(fails)), other |-> nv.other + Cardinality(fails \ Mine(fails))]
  /\ l' = l + 1

E == Rec[l]

IsRedir(st) == st >= 300 /\ st <= 399 /\ st # 304

LandedFails(e) ==
       RDClause("C15", "the redirect state must be entered exactly for 3xx statuses other than 304",
                e.state = (IF IsRedir(e.status) THEN "Redirect" ELSE "Cleanup"))
  \cup RDClause("C15", "the redirect state reports a different status", e.state = "Redirect" => e.reported = e.status)

TCase == E.ev = "case" /\ cs' = [id |-> E.id, prop |-> E.prop] /\ Step({})
THop == E.ev = "hop" /\ Step(HopFails(E)) /\ UNCHANGED cs
TLanded == E.ev = "landed" /\ Step(LandedFails(E)) /\ UNCHANGED cs
TPanic ==
  /\ E.ev \in {"panic", "stuck"}
  /\ Step({<<cs.prop, E.ev \o " during " \o E.during>>})
  /\ UNCHANGED cs

Next == l <= N /\ (TCase \/ THop \/ TLanded \/ TPanic)
Spec == Init /\ [][Next]_vars

Report == l = N + 1 => Verdict(N, viol, nv, [comp |-> "Redirect"])
Consumed == TLCGet("stats").diameter = N + 1 \/ PrintT("UNMATCHED " \o ToString(TLCGet("stats").diameter))
=============================================================================
