SPECIFICATION Spec
CONSTANTS
  Mode = "chunked"
  NSet = {0}
  InSet = {0,1,2,3,4}
  OutSet = {0,3,4,5,6,7,11,12,13,14,30}
  AmtSet = {}
  Radix = 2
  MaxChunk = 3
  Defects = {}
  Layer = "Abs"
  MaxCalls = 4
VIEW view
INVARIANTS Refines TermAtMostOnce FinishedIffTerm NothingAfterEnd EndedIsTerm
CHECK_DEADLOCK FALSE
