----------------------------- MODULE TraceOutcome -----------------------------
(* Trace validation of C01: for a fixed request and a fixed server byte stream the outcome
   of every exchange is the same under every I/O schedule, and the server bytes consumed by
   an exchange are exactly the bytes of its response message(s).
   Events (harness/src/drv_c01.rs):
     case    [id, prop, msglens]     msglens[k] = length of the response message(s) of exchange k
     run     [sched]                 a new schedule for the same case (the first run is the reference:
                                     everything arrives at once, big buffers)
     outcome [idx, head, sent, resp, body, stend, must_close, consumed, completed]
     panic / stuck [during]                                                               *)
EXTENDS Naturals, Sequences, FiniteSets, TraceCommon, IOUtils

Rec == ndJsonDeserialize(IOEnv.TRACE)
N == Len(Rec)

OClause(p, why, cond) == IF cond THEN {} ELSE {<<p, why>>}

VARIABLES l, cs, first, runs, viol, nv
vars == <<l, cs, first, runs, viol, nv>>

Init ==
  /\ l = 1
  /\ cs = [id |-> "none", prop |-> "C01", msglens |-> <<>>]
  /\ first = <<>>       \* outcomes of the reference run, by exchange index
  /\ runs = 0
  /\ viol = <<>>
  /\ nv = [mine |-> 0, other |-> 0]

Step(fails) ==
  /\ viol' = AddViol(viol, l, cs.id, fails)
  /\ nv' = [mine |-> nv.mine + Cardinality(Mine(fails)), other |-> nv.other + Cardinality(fails \ Mine(fails))]
  /\ l' = l + 1

E == Rec[l]

TCase ==
  /\ E.ev = "case"
  /\ cs' = [id |-> E.id, prop |-> E.prop, msglens |-> E.msglens]
  /\ first' = <<>> /\ runs' = 0
  /\ Step({})

TRun == E.ev = "run" /\ runs' = runs + 1 /\ Step({}) /\ UNCHANGED <<cs, first>>

Same(x, y, f) == x[f] = y[f]

OutcomeFails(o) ==
  LET ref == IF runs = 1 \/ o.idx > Len(first) THEN o ELSE first[o.idx]
  IN   OClause("C01", "the exchange did not run to completion under this schedule", o.completed)
  \cup OClause("C01", "request head bytes depend on the I/O schedule", Same(o, ref, "head"))
  \cup OClause("C01", "request body payload depends on the I/O schedule", Same(o, ref, "sent"))
  \cup OClause("C01", "response head depends on the I/O schedule", Same(o, ref, "resp"))
  \cup OClause("C01", "response body bytes depend on the I/O schedule", Same(o, ref, "body"))
  \cup OClause("C01", "terminal state depends on the I/O schedule", Same(o, ref, "stend"))
  \cup OClause("C01", "connection-reuse verdict depends on the I/O schedule", Same(o, ref, "must_close"))
  \cup OClause("C01", "server bytes consumed differ from the length of the response message(s) of the exchange",
               (o.idx <= Len(cs.msglens)) => o.consumed = cs.msglens[o.idx])

TOutcome ==
  /\ E.ev = "outcome"
  /\ Step(OutcomeFails(E))
  /\ first' = IF runs = 1 /\ E.idx = Len(first) + 1 THEN Append(first, E) ELSE first
  /\ UNCHANGED <<cs, runs>>

TPanic ==
  /\ E.ev \in {"panic", "stuck"}
  /\ Step({<<"C01", E.ev \o " during " \o E.during>>})
  /\ UNCHANGED <<cs, first, runs>>

Next == l <= N /\ (TCase \/ TRun \/ TOutcome \/ TPanic)
Spec == Init /\ [][Next]_vars

Report == l = N + 1 => Verdict(N, viol, nv, [comp |-> "Outcome"])
Consumed == TLCGet("stats").diameter = N + 1 \/ PrintT("UNMATCHED " \o ToString(TLCGet("stats").diameter))
=============================================================================
