SPECIFICATION Spec
INVARIANT Report
POSTCONDITION Consumed
CHECK_DEADLOCK FALSE
CONSTANT Checked = "C03"
CONSTANT Known = {}
