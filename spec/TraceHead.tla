------------------------------ MODULE TraceHead ------------------------------
(* Trace validation of head parsing (C05, C20) and response framing (C06).
   Events (harness/src/drv_head.rs):
     case    [id, prop, lay]                 a generated head (layout) — resets nothing else
     offer   [api,p,limit,res,c,head_ok,toomany]    prefix offered to Flow/Call try_response or a parser
     partial [p,limit,res,nrep,rep_ok,head_ok]      try_parse_partial_response
     cell    [method,status,http10,cl,clv,te, api,res,next,mode,moden,closedelim,interim_ok]
     panic   [during]                                                                      *)
EXTENDS HeadPrefix, RespRules, TraceCommon, IOUtils

Rec == ndJsonDeserialize(IOEnv.TRACE)
N == Len(Rec)

VARIABLES l, cs, viol, nv, dev
vars == <<l, cs, viol, nv, dev>>

Init ==
  /\ l = 1
  /\ cs = [id |-> "none", prop |-> "C05", lay |-> [H |-> 0, nf |-> 0, status |-> 0, sl |-> 0, ends |-> <<>>, locs |-> {}]]
  /\ viol = <<>>
  /\ nv = [mine |-> 0, other |-> 0]
  /\ dev = 0

Step(fails) ==
  /\ viol' = AddViol(viol, l, cs.id, fails)
  /\ nv' = [mine |-> nv.mine + Cardinality(Mine(fails)), other |-> nv.other + Cardinality(fails \ Mine(fails))]
  /\ l' = l + 1

E == Rec[l]
SetOf(seq) == { seq[i] : i \in 1..Len(seq) }

TCase ==
  /\ E.ev = "case"
  /\ cs' = [id |-> E.id, prop |-> E.prop,
            lay |-> IF "lay" \in DOMAIN E THEN [E.lay EXCEPT !.locs = SetOf(@)] ELSE cs.lay]
  /\ Step({}) /\ UNCHANGED dev

TOffer ==
  /\ E.ev = "offer"
  /\ Step(OfferFails(cs.lay, Known, E))
  /\ dev' = dev + (IF DevPartialRedirect(cs.lay, Known, E) THEN 1 ELSE 0)
  /\ UNCHANGED cs

TPartial ==
  /\ E.ev = "partial"
  /\ Step(PartialFails(cs.lay, E))
  /\ UNCHANGED <<cs, dev>>

TCell ==
  /\ E.ev = "cell"
  /\ Step(CellFails(E, E))
  /\ UNCHANGED <<cs, dev>>

TPanic ==
  /\ E.ev \in {"panic", "stuck"}
  /\ Step({<<cs.prop, E.ev \o " during " \o E.during>>})
  /\ UNCHANGED <<cs, dev>>

Next == l <= N /\ (TCase \/ TOffer \/ TPartial \/ TCell \/ TPanic)
Spec == Init /\ [][Next]_vars

Report == l = N + 1 => Verdict(N, viol, nv, [comp |-> "Head", dev |-> [PartialRedirect |-> dev]])
Consumed == TLCGet("stats").diameter = N + 1 \/ PrintT("UNMATCHED " \o ToString(TLCGet("stats").diameter))
=============================================================================
