----------------------------- MODULE MCChunkPlan -----------------------------
(* Sweep of the chunk-writer algorithm and the advertised maximum input over every
   output length n in 0..NMax (one state per n, so TLC parallelises and counts them).
   With Radix = 16, MaxChunk = 10240 these are the constants of src/body.rs; small
   radix / chunk values put the digit-count and chunk-size boundaries into tiny scopes.
   Checks, for every n and every probe input:
     Impl => Abs (ChunkedWriteFails = {}),  C18 (three clauses),  C19 (three clauses). *)
EXTENDS BodyWriter, TLC

CONSTANTS Radix, MaxChunk, Defects, NMax, ExhaustiveIn

VARIABLE n
vars == <<n>>

Fresh == InitW("chunked", BigZero, FALSE)
M(k) == ImplMaxInput(k, Radix, MaxChunk)
Ev(inl, outl) == ImplChunkedWrite(Fresh, inl, outl, Radix, MaxChunk, Defects)
Consumed(inl, outl) == Ev(inl, outl).c

Probes(k) ==
  IF ExhaustiveIn > 0 THEN 1..ExhaustiveIn
  ELSE { i \in { 1, 2, Monus(M(k), 1), M(k), M(k) + 1, 2 * M(k), Monus(k, 6), Monus(k, 5), Monus(k, 4), k, k + 1,
                 MaxChunk - 1, MaxChunk, MaxChunk + 1, 2 * MaxChunk + 1, 3 * MaxChunk + 1 } : i >= 1 }

Lanes == 16
Init == n \in 0..(Lanes - 1)
Next == n + Lanes <= NMax /\ n' = n + Lanes
Spec == Init /\ [][Next]_vars

ImplRefinesAbs == \A i \in Probes(n) \cup {0} : ChunkedWriteFails(Fresh, Ev(i, n)) = {}

C18_NotAboveN   == M(n) <= n
C18_Monotone    == M(n) <= M(n + 1)
C18_MaxIsTaken  == Consumed(M(n), n) = M(n)

C19_Progress    == n >= 6 => \A i \in Probes(n) : Consumed(i, n) >= 1
C19_AtLeastMax  == \A i \in Probes(n) : Consumed(i, n) >= Consumed(Min2(i, M(n)), n)
C19_MonotoneIn  == \A i, j \in Probes(n) : i <= j => Consumed(i, n) <= Consumed(j, n)
=============================================================================
