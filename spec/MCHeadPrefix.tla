---------------------------- MODULE MCHeadPrefix ----------------------------
(* Every prefix of every small head layout offered to the implementation-shaped pipeline;
   the answer must be an Abs step.  With Defects = {"PartialRedirect"} and Known = {} TLC
   refutes Refines (the known finding KF1); with Known = {"PartialRedirect"} it holds, so the
   tolerated deviation is exactly that one.  "ShortPrefixError" is the repaired defect F4.   *)
EXTENDS HeadPrefix, TLC

CONSTANTS MaxFields, LineLens, Statuses, Limits, Defects, Known

VARIABLES lay, p, limit, last
vars == <<lay, p, limit, last>>

SL == 17   \* "HTTP/1.1 200 OK\r\n"

RECURSIVE Ends(_, _)
Ends(lens, from) == IF lens = <<>> THEN <<>> ELSE <<from + Head(lens)>> \o Ends(Tail(lens), from + Head(lens))

RECURSIVE Seqs(_)
Seqs(k) == IF k = 0 THEN {<<>>} ELSE Seqs(k - 1) \cup { Append(s, x) : s \in { t \in Seqs(k - 1) : Len(t) = k - 1 }, x \in LineLens }

Layouts ==
  { [H |-> (IF lens = <<>> THEN SL ELSE Ends(lens, SL)[Len(lens)]) + 2, nf |-> Len(lens), status |-> st, sl |-> SL,
     ends |-> Ends(lens, SL), locs |-> locs]
    : lens \in Seqs(MaxFields), st \in Statuses, locs \in { {}, {1}, {2}, {3} } } 

GoodLayouts == { x \in Layouts : \A i \in x.locs : i <= x.nf }

Init == lay \in GoodLayouts /\ p = 0 /\ limit \in Limits /\ last = [fails |-> {}]
Next ==
  /\ p <= lay.H + 2
  /\ LET r == ImplTryResponse(lay, p, limit, Defects)
         e == [api |-> "flow", p |-> p, limit |-> limit, res |-> r.res, c |-> r.c, head_ok |-> TRUE, toomany |-> TRUE]
     IN last' = [fails |-> OfferFails(lay, Known, e), e |-> e]
  /\ p' = p + 1
  /\ UNCHANGED <<lay, limit>>
Spec == Init /\ [][Next]_vars
Refines == last.fails = {}
=============================================================================
