SPECIFICATION Spec
CONSTANTS
  MaxFields = 3
  LineLens = {6, 11}
  Statuses = {200, 302, 304}
  Limits = {0, 1, 4}
  Defects = {}
  Known = {}
INVARIANT Refines
CHECK_DEADLOCK FALSE
