----------------------------- MODULE HeadPrefix -----------------------------
(* Response / request head parsing on every prefix (C05, C20).

   A head is described by its LAYOUT: [H, nf, status, sl, ends, locs]
     H      : length of the head (through the empty line)
     nf     : number of header fields
     status : status code (0 for request heads)
     sl     : offset just after the CRLF of the start line
     ends   : ends[i] = offset just after the CRLF of the i-th field line
     locs   : indices of Location fields with a non-empty value
   An OFFER presents the first p bytes of (head ++ arbitrary further bytes).

   Abs : OfferFails / PartialFails, the contract per call.
   Impl: the pipeline of src/client/call.rs:462-493 over src/parser.rs with the pinned
         deviations as Defects:
           "ShortPrefixError"  prefixes shorter than the version token -> error   (fixed: F4)
           "PartialRedirect"   3xx prefix holding a complete Location line -> complete response
                               (known finding KF1; tolerated only if listed in Known)        *)
EXTENDS Naturals, Sequences, FiniteSets

HClause(p, why, cond) == IF cond THEN {} ELSE {<<p, why>>}

LocComplete(lay, p) == \E i \in lay.locs : lay.ends[i] <= p
FieldsComplete(lay, p) == Cardinality({ i \in 1..lay.nf : lay.ends[i] <= p })

\* Offer to Flow / Call try_response (api "flow" | "call", property C05) or to a standalone
\* complete-head parser (api "presp" | "preq", property C20).
\* e: [api, p, limit, res ("none"|"some"|"err"), c, head_ok, toomany]
\*   head_ok : status/method, version and all fields of the returned head equal the layout's
DevPartialRedirect(lay, known, e) ==
  /\ "PartialRedirect" \in known
  /\ e.api \in {"flow", "call"}
  /\ lay.status >= 300 /\ lay.status <= 399
  /\ e.p < lay.H
  /\ LocComplete(lay, e.p)
  /\ e.res = "some" /\ e.c = e.p

OfferFails(lay, known, e) ==
  LET prop     == IF e.api \in {"flow", "call"} THEN "C05" ELSE "C20"
      within   == lay.nf <= e.limit
      complete == e.p >= lay.H
  IN IF DevPartialRedirect(lay, known, e) THEN {}
     ELSE
          HClause(prop, "a strict prefix of a well-formed head must yield 'need more data', not an error and not a response",
                  (within /\ ~complete) => e.res = "none")
     \cup HClause(prop, "'need more data' must consume nothing", e.res = "none" => e.c = 0)
     \cup HClause(prop, "a complete head within the field limit must be returned",
                  (within /\ complete) => e.res = "some")
     \cup HClause(prop, "consumed count differs from the length of the head",
                  (within /\ complete /\ e.res = "some") => e.c = lay.H)
     \cup HClause(prop, "returned status/method, version or header fields differ from the head",
                  (within /\ complete /\ e.res = "some") => e.head_ok)
     \cup HClause(prop, "a head with more fields than the limit must be rejected",
                  (~within /\ complete) => e.res = "err")
     \cup HClause(prop, "a prefix of an over-limit head may only be incomplete or rejected",
                  (~within /\ ~complete) => e.res \in {"none", "err"})
     \cup HClause("C20", "too-many-headers error for a head within the limit",
                  (e.api \in {"presp", "preq"} /\ e.res = "err" /\ e.toomany) => ~within)
     \cup HClause("C20", "over-limit head rejected with a different error than too-many-headers",
                  (e.api \in {"presp", "preq"} /\ ~within /\ complete /\ e.res = "err") => e.toomany)

\* the partial response parser (C20).  e: [p, limit, res, nrep, rep_ok, head_ok]
\*   nrep   : number of fields reported;  rep_ok : they are, in order, fields of the head
PartialFails(lay, e) ==
  LET within == lay.nf <= e.limit
  IN   HClause("C20", "partial parser failed on a prefix of a well-formed head within the limit",
               within => e.res # "err")
  \cup HClause("C20", "partial parser reported a field that is not completely present in its input",
               e.res = "some" => (e.nrep <= FieldsComplete(lay, e.p) /\ e.rep_ok))
  \cup HClause("C20", "partial parser returned a wrong status or version",
               e.res = "some" => e.head_ok)

(* ---------------- Impl: what the code answers ---------------- *)
VersionTokenLen == 8      \* "HTTP/1.1"

\* parser.rs try_parse_response::<limit> on a prefix
ImplComplete(lay, p, limit) ==
  IF p >= lay.H THEN (IF lay.nf <= limit THEN "some" ELSE "err")
  ELSE IF FieldsComplete(lay, p) >= limit /\ lay.nf > limit /\ p > lay.ends[limit + 1] - 1 THEN "err"
  ELSE "none"

\* call.rs try_response: complete parser, then the partial fallback
ImplTryResponse(lay, p, limit, defects) ==
  LET r == ImplComplete(lay, p, limit)
  IN IF r # "none" THEN [res |-> r, c |-> IF r = "some" THEN lay.H ELSE 0]
     ELSE IF "ShortPrefixError" \in defects /\ p < VersionTokenLen THEN [res |-> "err", c |-> 0]
     ELSE IF "PartialRedirect" \in defects /\ p >= lay.sl /\ lay.status >= 300 /\ lay.status <= 399
             /\ LocComplete(lay, p)
          THEN [res |-> "some", c |-> p]
     ELSE [res |-> "none", c |-> 0]
=============================================================================
