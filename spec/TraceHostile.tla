----------------------------- MODULE TraceHostile -----------------------------
(* Trace validation of the C12 envelope: arbitrary server bytes offered in any pieces to any
   server-facing call.  Nothing is required about WHICH answer a call gives, only that it
   returns normally with an error or with counts inside the envelope, that produced bytes are
   an in-order copy of consumed input bytes, and that later state-advancing calls do not panic.
   Events (harness/src/drv_hostile.rs):
     case [id, prop]
     h    [api, w, outl, res ("ok" | "err"), c, p, subseq_ok]     one server-facing call
     adv  [op, res]                                               proceed / query afterwards
     panic / stuck [during]                                                               *)
EXTENDS BodyReader, TraceCommon, IOUtils

Rec == ndJsonDeserialize(IOEnv.TRACE)
N == Len(Rec)

VARIABLES l, cs, viol, nv
vars == <<l, cs, viol, nv>>

Init ==
  /\ l = 1
  /\ cs = [id |-> "none", prop |-> "C12"]
  /\ viol = <<>>
  /\ nv = [mine |-> 0, other |-> 0]

Step(fails) ==
  /\ viol' = AddViol(viol, l, cs.id, fails)
  /\ nv' = [mine |-> nv.mine + Cardinality(Mine(fails)), other |-> nv.other + Cardinality(fails \ Mine(fails))]
  /\ l' = l + 1

E == Rec[l]

TCase == E.ev = "case" /\ cs' = [id |-> E.id, prop |-> E.prop] /\ Step({})
TCall == E.ev = "h" /\ Step(EnvelopeFails(E)) /\ UNCHANGED cs
TAdv == E.ev = "adv" /\ Step({}) /\ UNCHANGED cs
TPanic ==
  /\ E.ev \in {"panic", "stuck"}
  /\ Step({<<"C12", E.ev \o " during " \o E.during>>})
  /\ UNCHANGED cs

Next == l <= N /\ (TCase \/ TCall \/ TAdv \/ TPanic)
Spec == Init /\ [][Next]_vars

Report == l = N + 1 => Verdict(N, viol, nv, [comp |-> "Hostile"])
Consumed == TLCGet("stats").diameter = N + 1 \/ PrintT("UNMATCHED " \o ToString(TLCGet("stats").diameter))
=============================================================================
