SPECIFICATION Spec
CONSTANTS
  Statuses = 100..999
  Defects = {}
INVARIANTS TableTotal AmbiguousOnlyWhereStated ImplAdmissible SuccessorTotal
CHECK_DEADLOCK FALSE
