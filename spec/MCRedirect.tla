----------------------------- MODULE MCRedirect -----------------------------
(* Redirect chains of up to MaxHops hops over a small URI / reference alphabet.  Every hop of
   the code-shaped ImplHop must satisfy the Abs guard HopFails (C13, C14, C15); each Defects
   toggle must be refuted (the resolve-against-original and auth-against-previous-hop
   mutants only from the second hop on).  With DumpEdges the transitions are printed for
   the edge-cover script generator.                                                       *)
EXTENDS Redirect, Json, TLC

CONSTANTS Schemes, Hosts, Ports, BasePathIdx, Queries, RelSegs, MaxRel, StatusSet, MethodSet, MaxHops, Defects, DumpEdges

VARIABLES hop, orig, cur, method, policy, last
vars == <<hop, orig, cur, method, policy, last>>
\* `last` is hidden from the fingerprint, except for whether the step failed a clause: otherwise a failing step that
\* leaves the rest of the state unchanged would be merged with its predecessor and never be evaluated by Refines
view == <<hop, orig, cur, method, policy, last.fails # {}>>

BasePathTable == << <<"">>, <<"x", "y">>, <<"x", "y", "">>, <<"x">> >>
BasePaths == { BasePathTable[k] : k \in BasePathIdx }
Uris == [scheme : Schemes, host : Hosts, port : Ports, segs : BasePaths, q : Queries]

RECURSIVE SegSeqs(_)
SegSeqs(k) == IF k = 0 THEN {<<>>} ELSE SegSeqs(k - 1) \cup { Append(s, x) : s \in { t \in SegSeqs(k - 1) : Len(t) = k - 1 }, x \in RelSegs }

Ref(kind, scheme, host, port, segs, q) == [kind |-> kind, scheme |-> scheme, host |-> host, port |-> port, segs |-> segs, q |-> q]

Refs ==
       { Ref("abs", s, h, p, sg, q) : s \in Schemes, h \in Hosts, p \in Ports, sg \in {<<>>, <<"p">>, <<"p", "..", "r", "">>}, q \in Queries }
  \cup { Ref("net", "", h, p, sg, NoQ) : h \in Hosts, p \in Ports, sg \in {<<>>, <<"n">>} }
  \cup { Ref("abspath", "", "", 0, sg, q) : sg \in {<<"">>, <<"p">>, <<"p", ".", "..", "r">>}, q \in Queries }
  \cup { Ref("relpath", "", "", 0, sg, NoQ) : sg \in SegSeqs(MaxRel) \ {<<>>} }
  \cup { Ref("query", "", "", 0, <<>>, "z=9") }
  \cup { Ref("empty", "", "", 0, <<>>, NoQ) }
  \cup { Ref("bad", "", "", 0, <<>>, NoQ) }

Init ==
  /\ hop = 0
  /\ orig \in Uris /\ cur = orig
  /\ method \in MethodSet
  /\ policy \in {"Never", "SameHost"}
  /\ last = [op |-> "init", fails |-> {}]

Follow(status, r) ==
  /\ hop < MaxHops
  /\ LET e == ImplHop(status, method, policy, orig, cur, r, Defects)
     IN /\ last' = [op |-> "hop", e |-> e, fails |-> HopFails(e)]
        /\ e.res = "flow"
        /\ hop' = hop + 1
        /\ cur' = Norm(e.uri)
        /\ method' = e.newmethod
  /\ UNCHANGED <<orig, policy>>

\* hops that end the chain (not followed / error) are checked without a successor state
DeadEndsOk ==
  \A status \in StatusSet, r \in Refs :
     LET e == ImplHop(status, method, policy, orig, cur, r, Defects)
     IN e.res # "flow" => HopFails(e) = {}

Next == \E status \in StatusSet, r \in Refs : Follow(status, r)
Spec == Init /\ [][Next]_vars

Refines == last.fails = {}

Edge ==
  ~DumpEdges \/
  PrintT("EDGE " \o ToJson([s |-> ToJson(<<hop, orig, cur, method, policy>>), t |-> ToJson(<<hop', orig', cur', method', policy'>>),
                            i |-> (hop = 0), cod |-> [orig |-> orig, method |-> method, policy |-> policy],
                            op |-> [op |-> "hop", status |-> last'.e.status, ref |-> last'.e.ref]]))
=============================================================================
