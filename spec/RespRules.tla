------------------------------ MODULE RespRules ------------------------------
(* Response message-body-length rules (C06), as restated by the property from RFC 9112 6.3 —
   written from the rule text, not from src/body.rs.  Also used by the Flow model.

   cell: [method, status, http10 (response version is 1.0), cl, clv, te]
     cl : "absent" | "zero" | "n" | "huge" | "nonnum"     clv : Big value of a numeric Content-Length
     te : "absent" | "chunked" | "mixedcase" | "list" (coding list ending in chunked) | "other"  *)
EXTENDS Big, Naturals, FiniteSets

RRClause(p, why, cond) == IF cond THEN {} ELSE {<<p, why>>}

Methods == {"GET", "HEAD", "POST", "PUT", "DELETE", "CONNECT", "OPTIONS", "TRACE", "PATCH"}

DeclaresChunked(te) == te \in {"chunked", "mixedcase", "list"}
IsRedirectStatus(st) == st >= 300 /\ st <= 399 /\ st # 304
NoBodyByRule(method, st) ==
  \/ method = "HEAD"
  \/ (method = "CONNECT" /\ st >= 200 /\ st <= 299)
  \/ (st >= 100 /\ st <= 199)
  \/ st = 204 \/ st = 304

Mode(m, n) == [m |-> m, n |-> n]
NoBody == Mode("NoBody", BigZero)
Chunked == Mode("Chunked", BigZero)
Close == Mode("Close", BigZero)
ErrMode == Mode("Err", BigZero)

\* admissible body modes of a cell (two where the property's text does not decide)
Modes(c) ==
  IF c.cl = "nonnum" THEN {ErrMode}
  ELSE IF NoBodyByRule(c.method, c.status) THEN {NoBody}
  ELSE IF DeclaresChunked(c.te) /\ ~c.http10 THEN {Chunked}
  ELSE IF c.cl # "absent" THEN {Mode("Length", c.clv)}
  \* here no header delimits a body (no Content-Length; no chunked coding that counts): "without any framing header"
  \* is read as "without a header that frames the body" — a Transfer-Encoding: gzip, or chunked on an HTTP/1.0
  \* response, frames nothing.  (Until round 3 of the seeded changes both answers were accepted in these cells.)
  ELSE IF IsRedirectStatus(c.status) THEN {NoBody}
  ELSE {Close}

NeedBody(m) == m.m # "NoBody" /\ ~(m.m = "Length" /\ BigIsZero(m.n))
AfterHead(m, st) == IF NeedBody(m) THEN "RecvBody" ELSE IF IsRedirectStatus(st) THEN "Redirect" ELSE "Cleanup"

\* e: [api, res, next, mode, moden, interim_ok]
CellFails(c, e) ==
  LET ms     == Modes(c)
      errExp == ms = {ErrMode}
  IN IF c.status = 100
     THEN RRClause("C06", "an interim 100 response must have no body: the next head must be parsed at once", e.interim_ok)
     ELSE
          RRClause("C06", "a non-numeric Content-Length must be an error", errExp => e.res = "err")
     \cup RRClause("C06", "a response with well-formed framing was not accepted", ~errExp => e.res = "some")
     \cup (IF errExp \/ e.res # "some" THEN {}
           ELSE IF e.api = "flow" THEN
                  RRClause("C06", "state after the head differs from the one the body-length rules prescribe",
                           e.next \in { AfterHead(m, c.status) : m \in ms })
             \cup RRClause("C06", "body delimitation differs from the one the body-length rules prescribe",
                           e.next = "RecvBody" => Mode(e.mode, e.moden) \in ms)
           ELSE   RRClause("C06", "single-call API: no body expected although the rules prescribe one",
                           e.next = "nobody" => NoBody \in ms)
             \cup RRClause("C06", "single-call API: body expected although the rules prescribe none",
                           e.next = "body" => \E m \in ms : m.m # "NoBody" /\ (e.closedelim <=> m.m = "Close")))

(* ---------------- Impl: src/body.rs for_response / header_defined ---------------- *)
\* Defects are mutation-style toggles used as negative controls of the model.
ImplHeaderDefined(c, defects) ==
  LET chunked == IF "ChunkedExactCaseOnly" \in defects THEN c.te = "chunked" ELSE DeclaresChunked(c.te)
      useCh   == chunked /\ (~c.http10 \/ "ChunkedOnHttp10" \in defects)
  IN IF c.cl = "nonnum" THEN ErrMode
     ELSE IF "LengthBeatsChunked" \in defects /\ c.cl # "absent" THEN Mode("Length", c.clv)
     ELSE IF useCh THEN Chunked
     ELSE IF c.cl # "absent" THEN Mode("Length", c.clv)
     ELSE Close

ImplMode(c, defects) ==
  LET hd == ImplHeaderDefined(c, defects)
      nb == \/ c.method = "HEAD"
            \/ (c.method = "CONNECT" /\ c.status >= 200 /\ c.status <= 299 /\ "NoConnectClause" \notin defects)
            \/ (c.status >= 100 /\ c.status <= 199)
            \/ c.status = 204
            \/ (c.status = 304 /\ "No304Clause" \notin defects)
            \/ (IsRedirectStatus(c.status) /\ hd = Close)
  IN IF hd = ErrMode THEN ErrMode ELSE IF nb THEN NoBody ELSE hd
=============================================================================
