--------------------------- MODULE TraceBodyWriter ---------------------------
(* Trace validation of the request-body writer against the Abs layer of BodyWriter.
   Events (harness/src/drv_bw.rs):
     case  [id, prop, kind, N, ready0]      a fresh writer (resets the tracked state)
     w     [inl,outl,res,c,p,copy_ok,chunks,term,termlen,junk,ready, probe, maxprobe]
     dw    [amt,res,ready]                  consume_direct_write
     mx    [n,m,chunked,ready]              calculate_max_input
     adv   [ready,advanced]                 Flow::proceed / Call::into_receive as the last call on the writer
     panic [during]   stuck [during]                                                    *)
EXTENDS BodyWriter, TraceCommon, IOUtils

Rec == ndJsonDeserialize(IOEnv.TRACE)
N == Len(Rec)

VARIABLES l, s, cs, row, prevmx, viol, nv
vars == <<l, s, cs, row, prevmx, viol, nv>>

NoRow == [outl |-> 0, f |-> <<>>]

Init ==
  /\ l = 1
  /\ s = InitW("sized", BigZero, FALSE)
  /\ cs = [id |-> "none", prop |-> "C03"]
  /\ row = NoRow
  /\ prevmx = <<>>
  /\ viol = <<>>
  /\ nv = [mine |-> 0, other |-> 0]

Step(fails) ==
  /\ viol' = AddViol(viol, l, cs.id, fails)
  /\ nv' = [mine |-> nv.mine + Cardinality(Mine(fails)), other |-> nv.other + Cardinality(fails \ Mine(fails))]
  /\ l' = l + 1

E == Rec[l]

TCase ==
  /\ E.ev = "case"
  /\ s' = InitW(E.kind, E.N, E.ready0)
  /\ cs' = [id |-> E.id, prop |-> E.prop]
  /\ prevmx' = <<>>
  /\ UNCHANGED row
  /\ Step(Clause("C03", "chunked body reported finished before any body write (terminator emitted outside the body?)",
                 E.kind = "chunked" => ~E.ready0))

TWrite ==
  /\ E.ev = "w"
  /\ LET probe  == Get(E, "probe", FALSE) /\ s.mode = "chunked" /\ ~s.ended /\ E.res = "ok"
         r0     == IF row.outl = E.outl THEN row.f ELSE <<>>
         rfails == IF probe THEN RowFails(r0, E.inl, E.c, Get(E, "m", 0)) ELSE {}
         mfails == IF Get(E, "maxprobe", FALSE) THEN MaxWriteFails(E) ELSE {}
     IN /\ Step(WriteFails(s, E) \cup rfails \cup mfails)
        /\ row' = IF probe THEN [outl |-> E.outl, f |-> (E.inl :> E.c) @@ r0] ELSE row
  /\ s' = WriteUpd(s, E)
  /\ UNCHANGED <<cs, prevmx>>

TDirect ==
  /\ E.ev = "dw"
  /\ IF s.mode = "sized"
     THEN Step(SizedDirectFails(s, E)) /\ s' = SizedDirectUpd(s, E)
     ELSE Step(ChunkedDirectFails(s, E)) /\ s' = s
  /\ UNCHANGED <<cs, row, prevmx>>

TMax ==
  /\ E.ev = "mx"
  /\ Step(MaxInputFails(E, prevmx) \cup QueryFails(s, E))
  /\ prevmx' = <<E.n, E.m>>
  /\ UNCHANGED <<s, cs, row>>

TAdvance ==
  /\ E.ev = "adv"
  /\ Step(AdvanceFails(s, E))
  /\ UNCHANGED <<s, cs, row, prevmx>>

TMaxBig ==
  /\ E.ev = "mxb"
  /\ Step(MaxInputBigFails(E))
  /\ UNCHANGED <<s, cs, row, prevmx>>

TPanic ==
  /\ E.ev \in {"panic", "stuck"}
  /\ Step({<<cs.prop, E.ev \o " during " \o E.during>>})
  /\ UNCHANGED <<s, cs, row, prevmx>>

Next == l <= N /\ (TCase \/ TWrite \/ TDirect \/ TMax \/ TMaxBig \/ TAdvance \/ TPanic)
Spec == Init /\ [][Next]_vars

Report == l = N + 1 => Verdict(N, viol, nv, [comp |-> "BodyWriter"])
Consumed == TLCGet("stats").diameter = N + 1 \/ PrintT("UNMATCHED " \o ToString(TLCGet("stats").diameter))
=============================================================================
