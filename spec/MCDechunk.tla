----------------------------- MODULE MCDechunk -----------------------------
(* Bounded model of chunked response decoding (C07; symbol level also C12).

   Grammar mode (Hostile = FALSE): every valid coding of a small-scope grammar
     (<= NChunks chunks, sizes, leading zeros, upper/lower hex, extension, trailers,
     payload containing CR and LF, followed by bytes of a next message that look like a
     size line) is delivered in every arrival schedule (Arrive(1) makes every cut set
     reachable) into every output size of OutSet with boundary stop on/off and toggled.
     Invariants: the implementation-shaped decoder (BodyReader!ImplChunkedRead) only takes
     steps the Abs guard allows (Refines), never errs, never panics, never over-reads.
   Hostile mode (Hostile = TRUE): every byte string over Alphabet up to MaxLen is offered;
     the only requirements are the C12 envelope and "no Panic state".

   With DumpEdges = TRUE every explored transition is printed as one JSON line
   (EDGE {...}); bin/genscripts.py turns them into an edge cover by paths = replay
   scripts for the real decoder.                                                      *)
EXTENDS BodyReader, SequencesExt, Json, TLC

CONSTANTS NChunks, Sizes, ZeroSet, ExtSet, TrailerSet, OutSet, Hostile, Alphabet, MaxLen, DumpEdges, ToggleStop

(* ---------------- codings ---------------- *)
PAT == <<120, 13, 10, 121, 13, 122, 10, 10, 13, 48>>      \* x CR LF y CR z LF LF CR 0
DataAt(off, n) == [j \in 1..n |-> PAT[((off + j - 1) % Len(PAT)) + 1]]

HexDigit(v, upper) == IF v < 10 THEN 48 + v ELSE (IF upper THEN 55 ELSE 87) + v
RECURSIVE HexStr(_, _)
HexStr(n, upper) ==
  IF n < 16 THEN <<HexDigit(n, upper)>> ELSE HexStr(n \div 16, upper) \o <<HexDigit(n % 16, upper)>>

CRLF == <<13, 10>>
ExtBytes(x) == IF x = "none" THEN <<>> ELSE IF x = "x" THEN <<59, 120>> ELSE <<59, 97, 61, 49>>   \* ;x  ;a=1
TrailerBytes(t) == IF t = 0 THEN <<>> ELSE IF t = 1 THEN <<116, 58, 118>> \o CRLF
                   ELSE <<116, 58, 118>> \o CRLF \o <<117, 58, 32, 13, 10>>                    \* t:v  u:_
NextMsg == <<53, 13, 10, 122, 122>>                                                           \* 5 CR LF z z

ChunkSpecs == [n : Sizes, z : ZeroSet, u : BOOLEAN, ext : ExtSet]
\* upper/lower only matters for sizes with a letter digit
ChunkSpecsNorm == { c \in ChunkSpecs : c.u => c.n >= 10 }

RECURSIVE ChunkSeqs(_)
ChunkSeqs(k) == IF k = 0 THEN {<<>>} ELSE ChunkSeqs(k - 1) \cup { Append(s, c) : s \in { t \in ChunkSeqs(k - 1) : Len(t) = k - 1 }, c \in ChunkSpecsNorm }

RECURSIVE Build(_, _, _, _)
Build(chunks, bytes, pay, off) ==
  IF chunks = <<>> THEN [bytes |-> bytes, pay |-> pay]
  ELSE LET c   == Head(chunks)
           hdr == [j \in 1..c.z |-> 48] \o HexStr(c.n, c.u) \o ExtBytes(c.ext) \o CRLF
       IN Build(Tail(chunks), bytes \o hdr \o DataAt(off, c.n) \o CRLF,
                Append(pay, <<Len(bytes) + Len(hdr), c.n>>), off + c.n)

MkCoding(chunks, lastz, lastext, tr) ==
  LET b    == Build(chunks, <<>>, <<>>, 0)
      body == b.bytes \o [j \in 1..lastz |-> 48] \o <<48>> \o ExtBytes(lastext) \o CRLF \o TrailerBytes(tr) \o CRLF
  IN [bytes |-> body \o NextMsg, L |-> Len(body), pay |-> b.pay]

GrammarCodings ==
  { MkCoding(ch, lz, le, tr) : ch \in ChunkSeqs(NChunks), lz \in ZeroSet, le \in ExtSet, tr \in TrailerSet }

RECURSIVE Strings(_)
Strings(k) == IF k = 0 THEN {<<>>} ELSE Strings(k - 1) \cup { Append(s, a) : s \in { t \in Strings(k - 1) : Len(t) = k - 1 }, a \in Alphabet }
HostileCodings == { [bytes |-> s, L |-> Len(s), pay |-> <<>>] : s \in Strings(MaxLen) }

Table == SetToSeq(IF Hostile THEN HostileCodings ELSE GrammarCodings)

(* ---------------- model ---------------- *)
VARIABLES cod, avail, pos, d, delivered, stop, last
vars == <<cod, avail, pos, d, delivered, stop, last>>
\* `last` is hidden from the fingerprint, except for whether the step failed a clause: otherwise a failing step that
\* leaves the rest of the state unchanged would be merged with its predecessor and never be evaluated by Refines
view == <<cod, avail, pos, d, delivered, stop, last.fails # {}>>

Bytes == Table[cod].bytes
Lay == Table[cod]
Total == Len(Bytes)

\* absolute 1-based positions of the payload bytes, in order
PayPos(lay) ==
  LET RECURSIVE PP(_)
      PP(i) == IF i > Len(lay.pay) THEN <<>>
               ELSE [j \in 1..lay.pay[i][2] |-> lay.pay[i][1] + j] \o PP(i + 1)
  IN PP(1)

Init ==
  /\ cod \in 1..Len(Table)
  /\ avail = 0 /\ pos = 0 /\ d = DInit /\ delivered = 0
  /\ stop \in (IF Hostile THEN {FALSE} ELSE BOOLEAN)
  /\ last = [op |-> "init", fails |-> {}]

Arrive(k) ==
  /\ avail < Total
  /\ avail' = RMin2(avail + k, Total)
  /\ last' = [op |-> "arrive", k |-> avail' - avail, fails |-> {}]
  /\ UNCHANGED <<cod, pos, d, delivered, stop>>

Toggle ==
  /\ ToggleStop /\ ~Hostile
  /\ stop' = ~stop
  /\ last' = [op |-> "stop", b |-> stop', fails |-> {}]
  /\ UNCHANGED <<cod, avail, pos, d, delivered>>

Read(o) ==
  /\ d.st \notin {"Err", "Panic"}
  /\ LET r   == ImplChunkedRead(Bytes, pos + 1, avail, o, stop, d)
         bad == r.d.st \in {"Err", "Panic"}
         pp  == PayPos(Lay)
         e   == [w |-> avail - pos, outl |-> o, stop |-> stop,
                 res |-> IF bad THEN "err" ELSE "ok", c |-> r.c, p |-> r.p,
                 content_ok |-> (delivered + r.p <= Len(pp) /\ r.out = SubSeq(pp, delivered + 1, delivered + r.p)),
                 subseq_ok |-> (\A j \in 1..Len(r.out) : r.out[j] > pos /\ r.out[j] <= pos + r.c)
                               /\ (\A j \in 1..(Len(r.out) - 1) : r.out[j] < r.out[j + 1]),
                 ready |-> r.d.st = "Ended"]
     IN /\ last' = [op |-> "read", o |-> o, c |-> r.c, p |-> r.p, st |-> r.d.st,
                    fails |-> IF Hostile THEN EnvelopeFails(e)
                              ELSE ChunkedReadFails(Lay, [pos |-> pos, delivered |-> delivered], e)]
        /\ pos' = pos + r.c
        /\ delivered' = delivered + r.p
        /\ d' = r.d
  /\ UNCHANGED <<cod, avail, stop>>

Next == Arrive(1) \/ Arrive(Total) \/ Toggle \/ \E o \in OutSet : Read(o)
Spec == Init /\ [][Next]_vars
FairSpec == Spec /\ WF_vars(Arrive(1)) /\ WF_vars(Read(1))

Refines      == last.fails = {}
NoPanic      == d.st # "Panic"
NoErrOnValid == Hostile \/ d.st # "Err"
NoOverRead   == pos <= Lay.L /\ pos <= avail
AllPayload   == (~Hostile /\ d.st = "Ended") => (pos = Lay.L /\ delivered = TotalPay(Lay))
EndedIff     == ~Hostile => (d.st = "Ended" <=> pos = Lay.L)

\* liveness: once everything has arrived the body is eventually reported ended
Completes == Hostile \/ <>(d.st = "Ended")

(* ---------------- edge dump ---------------- *)
Key == ToString(cod) \o "." \o ToString(avail) \o "." \o ToString(pos) \o "." \o d.st \o "."
       \o ToString(d.left) \o "." \o ToString(delivered) \o "." \o (IF stop THEN "s" ELSE "n")
Edge ==
  ~DumpEdges \/
  PrintT("EDGE " \o ToJson([s |-> Key, t |-> Key', i |-> (avail = 0 /\ pos = 0), cod |-> cod, op |-> last']))
TableDump == ~DumpEdges \/ PrintT("TABLE " \o ToJson(Table))
ASSUME TableDump
=============================================================================
