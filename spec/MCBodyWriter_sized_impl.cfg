SPECIFICATION Spec
CONSTANTS
  Mode = "sized"
  NSet = {0,1,2,3,4}
  InSet = {0,1,2,3,4,5}
  OutSet = {0,1,2,3,4,5}
  AmtSet = {0,1,2,3,4,5}
  Radix = 16
  MaxChunk = 10240
  Defects = {}
  Layer = "Impl"
  MaxCalls = 5
VIEW view
INVARIANTS Refines Accounting NeverBeyondN FinishedOnlyAtN FinishedAtN
CHECK_DEADLOCK FALSE
