-------------------------------- MODULE MCCall --------------------------------
(* Implementation-shaped model of the single-call API (src/client/call.rs) checked against the
   documented contract in CallApi.  With Defects = {"ReceiveBeforeHead"} (what the pinned tree does:
   do_into_receive only looks at the body writer, which a call without body has "ended" from the
   start) and Tolerated = {} TLC refutes Refines; with the deviation tolerated it holds.       *)
EXTENDS CallApi, TLC
CONSTANTS Defects, Tolerated
VARIABLES c, i, last
vars == <<c, i, last>>
\* `last` is hidden from the fingerprint, except for whether the step failed a clause: otherwise a failing step that
\* leaves the rest of the state unchanged would be merged with its predecessor and never be evaluated by Refines
view == <<c, i, last.fails # {}>>

Modes == {"NoBody", "Length", "Chunked", "Close"}

Init ==
  /\ \E wb \in BOOLEAN : c = InitCall(wb) /\ i = [st |-> c.st, phase |-> "line", wended |-> ~wb, reader |-> "unset"]
  /\ last = [fails |-> {}]

Write(complete, finish) ==
  /\ i.st \in {"WithoutBody", "WithBody"}
  /\ LET ph == IF i.phase = "body" THEN "body" ELSE IF complete THEN "body" ELSE "headers"
         we == IF i.st = "WithBody" /\ i.phase = "body" /\ finish THEN TRUE ELSE i.wended
     IN /\ i' = [i EXCEPT !.phase = ph, !.wended = we]
        /\ c' = [c EXCEPT !.head = ph = "body", !.wended = IF c.st = "WithBody" THEN we ELSE @]
        /\ last' = [fails |-> {}]

IsFinished ==
  /\ i.st \in {"WithoutBody", "WithBody", "RecvResponse"}
  /\ LET v == CASE i.st = "WithoutBody" -> i.phase = "body"
                [] i.st = "WithBody" -> i.wended
                [] OTHER -> i.reader # "unset"
     IN last' = [fails |-> FinishedFails(c, [val |-> v])]
  /\ UNCHANGED <<c, i>>

IntoReceive ==
  /\ i.st \in {"WithoutBody", "WithBody"}
  /\ LET ok == IF i.st = "WithoutBody" /\ "ReceiveBeforeHead" \notin Defects THEN i.phase = "body" ELSE i.wended
         e  == [res |-> IF ok THEN "ok" ELSE "err"]
     IN /\ last' = [fails |-> IntoReceiveFails(c, e, Tolerated)]
        /\ i' = [i EXCEPT !.st = IF ok THEN "RecvResponse" ELSE "Done"]
        /\ c' = [c EXCEPT !.st = IF ok THEN "RecvResponse" ELSE "Done"]

TryResponse(m) ==
  /\ i.st = "RecvResponse"
  /\ i' = [i EXCEPT !.reader = m]
  /\ c' = [c EXCEPT !.resp = TRUE, !.mode = m]
  /\ last' = [fails |-> {}]

IntoBody ==
  /\ i.st = "RecvResponse"
  /\ LET e == [res |-> IF i.reader = "unset" THEN "err" ELSE IF i.reader = "NoBody" THEN "none" ELSE "body"]
     IN /\ last' = [fails |-> IntoBodyFails(c, e)]
        /\ i' = [i EXCEPT !.st = IF e.res = "body" THEN "RecvBody" ELSE "Done"]
        /\ c' = [c EXCEPT !.st = IF e.res = "body" THEN "RecvBody" ELSE "Done"]

BodyQueries ==
  /\ i.st = "RecvBody"
  /\ last' = [fails |-> BodyQueriesFails(c, [closedelim |-> i.reader = "Close", ended |-> FALSE])]
  /\ UNCHANGED <<c, i>>

Next == (\E a, b \in BOOLEAN : Write(a, b)) \/ IsFinished \/ IntoReceive \/ (\E m \in Modes : TryResponse(m)) \/ IntoBody \/ BodyQueries
Spec == Init /\ [][Next]_vars
Refines == last.fails = {}
=============================================================================
