------------------------------- MODULE MCFlow -------------------------------
(* Implementation-shaped model of Flow<B, State> (src/client/flow.rs, holder.rs, call.rs):
   one action per public call, `st`-guarded as the type system guards it, with the
   would-panic cases explicit (an accessor on the wrong CallHolder variant, a push onto a
   full close-reason list => st = "Panicked").  Every action produces the event the harness
   would log and the Abs guards of Flow.tla are evaluated on it (Refines); the Abs tracker `a`
   is advanced with the same Upd operators the trace specification uses.

   Defects (deviations of the pinned tree, each reproduced there and since repaired):
     (sv: "none" | "100" | "refuseBare" | "refuseFields" | "refuseFieldsClose")
     "HolderNotConverted"  Await100 -> RecvResponse leaves the WithBody call in the holder   (F5)
     "DespiteNoFraming"    send_body_despite_method without framing header: no body writer  (F6)
     "ReasonCap4"          close-reason list holds 4 entries                                 (F7)
     "EmptyWriteIgnoredForSized"  write(&[]) never reaches a length-delimited body writer: a content-length: 0 body
                           cannot be finished (seeded change C09-h; negative control of the body-accounting clause)
   Conventions of the API that the environment respects: try_read_100 only while
   can_keep_await_100(); try_response not called again after it returned the final response. *)
EXTENDS Flow, Json, TLC

CONSTANTS MethodSet, StatusSet, FramingSet, RespClSet, RespTeSet, RespConnSet, PreSet, Defects, DumpEdges, WithQueries

VARIABLES
  a,         \* Abs tracker (Flow!InitFlow)
  rq,        \* request configuration incl. despite / framing
  sv,        \* server behaviour before the final response: "none" "100" "refuseBare" "refuseFields"
  i,         \* implementation state
  env,       \* environment: arrival class index of the early message, whether the 100 was consumed
  last       \* last event + failed clauses (observation; hidden by VIEW)
vars == <<a, rq, sv, i, env, last>>
\* `last` is hidden from the fingerprint, except for whether the step failed a clause: otherwise a failing step that
\* leaves the rest of the state unchanged would be merged with its predecessor and never be evaluated by Refines
view == <<a, rq, sv, i, env, last.fails # {}>>

Rqs ==
  { r \in [method : MethodSet, ver10 : BOOLEAN, expect : BOOLEAN, connclose : BOOLEAN, despite : BOOLEAN, framing : FramingSet] :
      /\ (r.ver10 => r.method \in {"GET", "HEAD", "POST"})
      /\ (r.framing # "default" => (NeedsReqBody(r.method) \/ r.despite))
      /\ (r.despite => ~NeedsReqBody(r.method)) }

BodyDue(r) == NeedsReqBody(r.method) \/ r.despite

EarlyClasses(pre) ==
  CASE pre = "100"          -> <<"nothing", "inStatusLine", "afterStatusLine", "bare100">>
    [] pre = "refuseBare"   -> <<"nothing", "inStatusLine", "afterStatusLine", "bareOther">>
    [] pre \in {"refuseFields", "refuseFieldsClose"} -> <<"nothing", "inStatusLine", "afterStatusLine", "otherInFields", "otherFieldLine", "otherComplete">>
    [] OTHER                -> <<"nothing">>

NoFin == [status |-> 0, resp10 |-> FALSE, cl |-> "absent", te |-> "absent", conn |-> "absent"]

Cap == IF "ReasonCap4" \in Defects THEN 4 ELSE 5

InitImpl(r) ==
  [st |-> "Prepare",
   holder |-> IF NeedsReqBody(r.method) THEN "WithBody" ELSE "WithoutBody",
   should |-> NeedsReqBody(r.method), await |-> r.expect,
   despiteDone |-> FALSE, head |-> 0,
   wmode |-> "unset", wleft |-> 0, wended |-> FALSE,
   reader |-> "unset", rleft |-> 0, status |-> 0,
   reasons |-> (IF r.ver10 THEN <<"Http10">> ELSE <<>>) \o (IF r.connclose THEN <<"ClientClose">> ELSE <<>>)]

Init ==
  /\ rq \in Rqs
  \* refusals presuppose the handshake; a 100 may also arrive unsolicited (no Expect) and is then an interim response
  /\ sv \in { p \in PreSet : p \notin {"none", "100"} => (rq.expect /\ BodyDue(rq)) }
  /\ a = WithFraming(InitFlow([method |-> rq.method, ver10 |-> rq.ver10, expect |-> rq.expect, connclose |-> rq.connclose]),
                     [framing |-> rq.framing, cln |-> IF rq.framing = "cl0" THEN 0 ELSE IF rq.framing = "cl2" THEN 2 ELSE -1])
  /\ i = InitImpl(rq)
  /\ env = [earr |-> 1, took100 |-> FALSE, finalSeen |-> FALSE, fin |-> NoFin]
  /\ last = [op |-> "init", fails |-> {}]

Alive == i.st \notin {"Dead", "Panicked"}
Panic == [i EXCEPT !.st = "Panicked"]
Push(ii, r) == IF Len(ii.reasons) >= Cap THEN [ii EXCEPT !.st = "Panicked"] ELSE [ii EXCEPT !.reasons = Append(@, r)]

\* an event of the model; the Abs guard decides whether it is a permitted step
Emit(e, fails, i2, a2) ==
  /\ last' = [e EXCEPT !.fails = fails]
  /\ i' = i2
  /\ a' = IF i2.st = "Panicked" THEN a ELSE a2
PanicStep(op) ==
  /\ last' = [op |-> "panic", st |-> i.st, during |-> op, fails |-> {<<"C09", "panic during " \o op>>}]
  /\ i' = Panic /\ a' = a

(* ------------------------------------------------------------------ Prepare *)
Despite ==
  /\ i.st = "Prepare" /\ rq.despite /\ ~i.despiteDone
  /\ Emit([op |-> "despite", st |-> "Prepare", fails |-> {}], {},
          [i EXCEPT !.should = TRUE, !.holder = "WithBody", !.despiteDone = TRUE],
          [a EXCEPT !.shouldSend = TRUE])
  /\ UNCHANGED <<rq, sv, env>>

\* generic proceed: impl decides `res` (next state | "none") and the new impl state
DoProceed(ready, res, i2) ==
  LET e == [op |-> "proceed", st |-> i.st, ready |-> ready, res |-> res, fails |-> {}]
  IN Emit(e, ProceedFails(a, e), IF res = "none" THEN [i EXCEPT !.st = "Dead"] ELSE i2, ProceedUpd(a, e))

PrepareProceed ==
  /\ i.st = "Prepare" /\ (rq.despite => i.despiteDone)
  /\ DoProceed(TRUE, "SendRequest", [i EXCEPT !.st = "SendRequest"])
  /\ UNCHANGED <<rq, sv, env>>

(* ------------------------------------------------------------------ SendRequest *)
WModeOf ==
  IF rq.framing = "chunked" THEN "chunked"
  ELSE IF rq.framing \in {"cl0", "cl2"} THEN "sized"
  ELSE IF i.holder = "WithBody" /\ (NeedsReqBody(rq.method) \/ "DespiteNoFraming" \notin Defects) THEN "chunked"
  ELSE "none"

SRWrite(big) ==
  /\ i.st = "SendRequest"
  /\ IF i.holder \notin {"WithoutBody", "WithBody"} THEN PanicStep("head write")
     ELSE LET h2 == IF i.head = 2 THEN 2 ELSE IF big THEN 2 ELSE i.head + 1
              i2 == [i EXCEPT !.head = h2,
                              !.wmode = IF @ = "unset" THEN WModeOf ELSE @,
                              !.wleft = IF i.wmode = "unset" /\ rq.framing = "cl2" THEN 2 ELSE @]
              e  == [op |-> "sr_write", st |-> i.st, big |-> big, res |-> "ok", n |-> h2 - i.head, ready |-> h2 = 2, fails |-> {}]
          IN Emit(e, {}, i2, [a EXCEPT !.ready = e.ready])
  /\ UNCHANGED <<rq, sv, env>>

SRProceed ==
  /\ i.st = "SendRequest"
  /\ IF i.holder \notin {"WithoutBody", "WithBody"} THEN PanicStep("proceed")
     ELSE LET can == i.head = 2
          IN IF ~can THEN DoProceed(FALSE, "none", i)
             ELSE IF i.should
                  THEN (IF i.await THEN DoProceed(TRUE, "Await100", [i EXCEPT !.st = "Await100"])
                        ELSE DoProceed(TRUE, "SendBody", [i EXCEPT !.st = "SendBody"]))
             ELSE IF i.holder # "WithoutBody" THEN PanicStep("proceed")
             ELSE DoProceed(TRUE, "RecvResponse", [i EXCEPT !.st = "RecvResponse", !.holder = "RecvResponse"])
  /\ UNCHANGED <<rq, sv, env>>

(* ------------------------------------------------------------------ Await100 *)
ArriveEarly ==
  /\ Alive /\ env.earr < Len(EarlyClasses(sv))
  /\ env' = [env EXCEPT !.earr = @ + 1]
  /\ last' = [op |-> "arrive", fails |-> {}]
  /\ UNCHANGED <<a, rq, sv, i>>

TryRead100 ==
  /\ i.st = "Await100" /\ i.await
  /\ LET cls == EarlyClasses(sv)[env.earr]
         \* the code (httparse with zero header slots) reports a refusal with fields only once one complete
         \* field line is present; a prefix ending inside the first field line is still "need more"
         und == cls \in Undecided \cup {"otherInFields"}
         ok  == cls = "bare100"
         i2  == IF und THEN i
                ELSE IF ok THEN [i EXCEPT !.await = FALSE]
                ELSE Push([i EXCEPT !.await = FALSE, !.should = FALSE], "Not100")
         e   == [op |-> "try_read_100", st |-> i.st, cls |-> cls, mlen |-> 25, res |-> "ok",
                 n |-> IF ok THEN 25 ELSE 0, keep |-> i2.await, fails |-> {}]
     IN /\ Emit(e, Read100Fails(a, e), i2, Read100Upd(a, e))
        /\ env' = IF ok THEN [env EXCEPT !.took100 = TRUE] ELSE env
  /\ UNCHANGED <<rq, sv>>

AwaitProceed ==
  /\ i.st = "Await100"
  /\ IF i.should THEN DoProceed(TRUE, "SendBody", [i EXCEPT !.st = "SendBody"])
     ELSE DoProceed(TRUE, "RecvResponse",
                    [i EXCEPT !.st = "RecvResponse",
                              !.holder = IF "HolderNotConverted" \in Defects THEN @ ELSE "RecvResponse"])
  /\ UNCHANGED <<rq, sv, env>>

(* ------------------------------------------------------------------ SendBody *)
SBWrite(finish, big) ==
  /\ i.st = "SendBody"
  /\ IF i.holder # "WithBody" \/ i.wmode = "none" THEN PanicStep("body write")
     ELSE LET sized == i.wmode # "chunked"
              \* the caller offers what is left (big buffer) or one byte (small buffer); an empty write signals the end
              inl  == IF finish THEN 0 ELSE IF sized THEN (IF big THEN i.wleft ELSE (IF i.wleft > 0 THEN 1 ELSE 0)) ELSE 2
              outl == IF big THEN 64 ELSE IF finish THEN 3 ELSE IF sized THEN 1 ELSE 6
              k    == IF sized THEN inl ELSE IF finish THEN 0 ELSE (IF big THEN 2 ELSE 1)
              i2 == CASE i.wmode = "chunked" ->
                            IF finish /\ big THEN [i EXCEPT !.wended = TRUE] ELSE i
                      [] OTHER ->
                            IF finish /\ "EmptyWriteIgnoredForSized" \in Defects THEN i
                            ELSE [i EXCEPT !.wleft = @ - k, !.wended = (i.wleft - k) = 0]
              e  == [op |-> "sb_write", st |-> i.st, finish |-> finish, big |-> big, res |-> "ok", ready |-> i2.wended,
                     inl |-> inl, outl |-> outl, c |-> k, fails |-> {}]
          IN Emit(e, SbWriteFails(a, e), i2, [a EXCEPT !.ready = e.ready, !.bleft = BodyLeftAfter(a, e)])
  /\ UNCHANGED <<rq, sv, env>>

SBProceed ==
  /\ i.st = "SendBody"
  /\ IF i.holder # "WithBody" THEN PanicStep("proceed")
     ELSE IF ~i.wended THEN DoProceed(FALSE, "none", i)
     ELSE DoProceed(TRUE, "RecvResponse", [i EXCEPT !.st = "RecvResponse", !.holder = "RecvResponse"])
  /\ UNCHANGED <<rq, sv, env>>

(* ------------------------------------------------------------------ RecvResponse *)
Fins ==
  [status : StatusSet, resp10 : BOOLEAN, cl : RespClSet, te : RespTeSet, conn : RespConnSet]
ClValOf(k) == IF k = "n" THEN BigOf(2) ELSE BigZero
CellOf(f) == [method |-> rq.method, status |-> f.status, http10 |-> f.resp10, cl |-> f.cl, clv |-> ClValOf(f.cl), te |-> f.te]
\* the refusal is the final response: bare (close-delimited), with Content-Length: 0, or with Connection: close and no length
RefusalFin == [status |-> 403, resp10 |-> FALSE, cl |-> IF sv = "refuseFields" THEN "zero" ELSE "absent", te |-> "absent",
               conn |-> IF sv = "refuseFieldsClose" THEN "close" ELSE "absent"]
IsRefusal(p) == p \in {"refuseBare", "refuseFields", "refuseFieldsClose"}

Pending100 == sv = "100" /\ ~env.took100

RRPartial ==
  /\ i.st = "RecvResponse" /\ ~env.finalSeen
  /\ IF i.holder # "RecvResponse" THEN PanicStep("try_response")
     ELSE LET e == [op |-> "try_response", st |-> i.st, kind |-> "partial", res |-> "none", n |-> 0, mlen |-> 0, ready |-> i.reader # "unset", fails |-> {}]
          IN Emit(e, ResponseFails(a, e), i, ResponseUpd(a, e))
  /\ UNCHANGED <<rq, sv, env>>

RRLate100 ==
  /\ i.st = "RecvResponse" /\ Pending100 /\ EarlyClasses(sv)[env.earr] = "bare100"
  /\ IF i.holder # "RecvResponse" THEN PanicStep("try_response") /\ UNCHANGED env
     ELSE LET skip == i.await
              e == [op |-> "try_response", st |-> i.st, kind |-> "late100", res |-> IF skip THEN "none" ELSE "some",
                    n |-> 25, mlen |-> 25, ready |-> FALSE, fails |-> {}]
          IN /\ Emit(e, ResponseFails(a, e), [i EXCEPT !.await = FALSE, !.status = IF skip THEN @ ELSE 100], ResponseUpd(a, e))
             /\ env' = [env EXCEPT !.took100 = TRUE]
  /\ UNCHANGED <<rq, sv>>

ReaderOf(m) == IF m.m = "Length" THEN (IF BigIsZero(m.n) THEN "Len0" ELSE "Len") ELSE m.m

RRFinal(f) ==
  /\ i.st = "RecvResponse" /\ ~env.finalSeen /\ ~Pending100
  /\ (IsRefusal(sv) => (f = RefusalFin /\ EarlyClasses(sv)[env.earr] \in {"bareOther", "otherComplete"}))
  /\ IF i.holder # "RecvResponse" THEN PanicStep("try_response") /\ UNCHANGED env
     ELSE LET cell == CellOf(f)
              m    == ImplMode(cell, {})
              cc   == f.conn \in {"close", "two"}
              i2   == IF m = ErrMode THEN i
                      ELSE LET i1 == [i EXCEPT !.reader = ReaderOf(m), !.rleft = IF m.m \in {"Chunked", "Close"} \/ (m.m = "Length" /\ ~BigIsZero(m.n)) THEN 2 ELSE 0,
                                               !.status = f.status]
                           IN IF cc THEN Push(i1, "ServerClose") ELSE i1
              e    == [op |-> "try_response", st |-> i.st, kind |-> "final", res |-> IF m = ErrMode THEN "err" ELSE "some",
                       n |-> 40, mlen |-> 40, cell |-> cell, conn |-> f.conn, connclose |-> cc, ready |-> m # ErrMode, fails |-> {}]
          IN /\ Emit(e, ResponseFails(a, e), i2, ResponseUpd(a, e))
             /\ env' = [env EXCEPT !.finalSeen = m # ErrMode, !.fin = IF m # ErrMode THEN f ELSE @]
  /\ UNCHANGED <<rq, sv>>

RRProceed ==
  /\ i.st = "RecvResponse"
  /\ IF i.holder # "RecvResponse" THEN PanicStep("proceed")
     ELSE IF i.reader = "unset" THEN DoProceed(FALSE, "none", i)
     ELSE IF i.reader \notin {"NoBody", "Len0"}
          THEN LET i1 == [i EXCEPT !.st = "RecvBody", !.holder = "RecvBody"]
               IN DoProceed(TRUE, "RecvBody", IF i.reader = "Close" THEN Push(i1, "CloseDelimited") ELSE i1)
     ELSE LET nx == IF IsRedirectStatus(i.status) THEN "Redirect" ELSE "Cleanup"
          IN DoProceed(TRUE, nx, [i EXCEPT !.st = nx, !.holder = "RecvBody"])
  /\ UNCHANGED <<rq, sv, env>>

(* ------------------------------------------------------------------ RecvBody *)
RBRead(all) ==
  /\ i.st = "RecvBody"
  /\ IF i.holder # "RecvBody" THEN PanicStep("body read")
     ELSE LET k  == IF all THEN i.rleft ELSE (IF i.rleft > 0 THEN 1 ELSE 0)
              i2 == [i EXCEPT !.rleft = @ - k]
              e  == [op |-> "read", st |-> i.st, all |-> all, res |-> "ok", ready |-> (i2.rleft = 0 \/ i.reader = "Close"), fails |-> {}]
          IN Emit(e, {}, i2, [a EXCEPT !.ready = e.ready])
  /\ UNCHANGED <<rq, sv, env>>

RBProceed ==
  /\ i.st = "RecvBody"
  /\ IF i.holder # "RecvBody" THEN PanicStep("proceed")
     ELSE LET can == i.rleft = 0 \/ i.reader = "Close"
              nx  == IF IsRedirectStatus(i.status) THEN "Redirect" ELSE "Cleanup"
          IN IF ~can THEN DoProceed(FALSE, "none", i) ELSE DoProceed(TRUE, nx, [i EXCEPT !.st = nx])
  /\ UNCHANGED <<rq, sv, env>>

(* ------------------------------------------------------------------ Redirect / Cleanup *)
ReasonText(r) ==
  CASE r = "Http10" -> "version is http1.0"
    [] r = "ClientClose" -> "client sent Connection: close"
    [] r = "ServerClose" -> "server sent Connection: close"
    [] r = "Not100" -> "got non-100 response before sending body"
    [] OTHER -> "response body is close delimited"

VerdictQuery ==
  /\ i.st \in {"Redirect", "Cleanup"}
  /\ LET e == [op |-> "verdict", st |-> i.st, must_close |-> i.reasons # <<>>,
               reason |-> IF i.reasons = <<>> THEN "" ELSE ReasonText(Head(i.reasons)), fails |-> {}]
     IN Emit(e, VerdictFails(a, e), i, a)
  /\ UNCHANGED <<rq, sv, env>>

StatusQuery ==
  /\ i.st = "Redirect"
  /\ LET e == [op |-> "status", st |-> i.st, val |-> i.status, fails |-> {}]
     IN Emit(e, StatusFails(a, e), i, a)
  /\ UNCHANGED <<rq, sv, env>>

RedirectProceed ==
  /\ i.st = "Redirect"
  /\ DoProceed(TRUE, "Cleanup", [i EXCEPT !.st = "Cleanup"])
  /\ UNCHANGED <<rq, sv, env>>

\* the readiness query as a call of its own (a stuttering step on the state)
CanProceedQuery ==
  /\ WithQueries /\ i.st \in {"SendRequest", "SendBody", "RecvResponse", "RecvBody"}
  /\ IF (i.st = "SendRequest" /\ i.holder \notin {"WithoutBody", "WithBody"})
        \/ (i.st = "SendBody" /\ i.holder # "WithBody")
        \/ (i.st = "RecvResponse" /\ i.holder # "RecvResponse")
        \/ (i.st = "RecvBody" /\ i.holder # "RecvBody")
     THEN PanicStep("can_proceed")
     ELSE LET v == CASE i.st = "SendRequest" -> i.head = 2
                     [] i.st = "SendBody" -> i.wended
                     [] i.st = "RecvResponse" -> i.reader # "unset"
                     [] OTHER -> (i.rleft = 0 \/ i.reader = "Close")
          IN Emit([op |-> "can_proceed", st |-> i.st, val |-> v, fails |-> {}], {}, i, a)
  /\ UNCHANGED <<rq, sv, env>>

Next ==
  \/ Despite \/ PrepareProceed
  \/ \E big \in BOOLEAN : SRWrite(big)
  \/ SRProceed
  \/ ArriveEarly \/ TryRead100 \/ AwaitProceed
  \/ \E fin \in BOOLEAN, big \in BOOLEAN : SBWrite(fin, big)
  \/ SBProceed
  \/ RRPartial \/ RRLate100 \/ (\E f \in Fins \cup {RefusalFin} : RRFinal(f)) \/ RRProceed
  \/ (\E all \in BOOLEAN : RBRead(all)) \/ RBProceed
  \/ VerdictQuery \/ StatusQuery \/ RedirectProceed \/ CanProceedQuery

Spec == Init /\ [][Next]_vars

(* ------------------------------------------------------------------ invariants *)
Refines        == last.fails = {}
NotPanicked    == i.st # "Panicked"
HolderMatches  ==
  /\ i.st \in {"Await100", "SendBody"} => i.holder = "WithBody"
  /\ i.st = "RecvResponse" => i.holder = "RecvResponse"
  /\ i.st \in {"RecvBody", "Redirect", "Cleanup"} => i.holder = "RecvBody"
TrackerAgrees  ==
  i.st \notin {"Panicked"} =>
    /\ a.st = i.st
    /\ i.st \in {"SendRequest", "Await100"} => (a.shouldSend = i.should /\ a.await100 = i.await)
SetOfSeq(q) == { q[k] : k \in 1..Len(q) }
VerdictIsDisjunction ==
  i.st \in {"Redirect", "Cleanup"} => SetOfSeq(i.reasons) = a.facts
BodySentIffNotRefused ==
  /\ ("Not100" \in a.facts /\ i.st \notin {"Await100", "Panicked"}) => ~(a.bodyAsked /\ i.st = "SendBody")
  /\ i.st = "SendBody" => "Not100" \notin a.facts
Late100SkippedOnce == a.skipped <= 1
RedirectIff == i.st = "Redirect" => IsRedirectStatus(i.status)

\* C01 at the level of the model: without a refusal the terminal outcome is a function of the request
\* and the server's messages alone — whatever the call schedule was (when the caller looked, gave up
\* waiting for 100, how it split writes and reads, which queries it interleaved)
ExpectedFacts(f) ==
       (IF rq.ver10 THEN {"Http10"} ELSE {})
  \cup (IF rq.connclose THEN {"ClientClose"} ELSE {})
  \cup (IF f.conn \in {"close", "two"} THEN {"ServerClose"} ELSE {})
  \cup (IF Modes(CellOf(f)) = {Close} THEN {"CloseDelimited"} ELSE {})
OutcomeDeterministic ==
  (i.st = "Cleanup" /\ ~IsRefusal(sv) /\ Cardinality(Modes(CellOf(env.fin))) = 1) =>
     /\ a.facts = ExpectedFacts(env.fin)
     /\ a.bodyAsked = BodyDue(rq)
     /\ (sv = "100" => env.took100)
     /\ i.status = env.fin.status

(* ------------------------------------------------------------------ edge dump *)
Key(ii, ee, aa) == ToJson(<<rq, sv, ii, ee, aa>>)
Edge ==
  ~DumpEdges \/
  PrintT("EDGE " \o ToJson([s |-> Key(i, env, a), t |-> Key(i', env', a'), i |-> (i.st = "Prepare" /\ ~i.despiteDone),
                            cod |-> [rq |-> rq, sv |-> sv], op |-> last']))
=============================================================================
