------------------------------ MODULE TraceFlow ------------------------------
(* Trace validation of whole flows against the Abs layer of Flow.tla (C09, C10, C11, C12, C15 status).
   Events (harness/src/flowbox.rs), one per public call, field `op` names the call:
     case [id, prop, rq [method, ver10, expect, connclose]]
     call [op, st, ...]   op in despite proceed sr_write try_read_100 sb_write try_response read
                          verdict status can_proceed new_flow
     panic / stuck [during]                                                               *)
EXTENDS Flow, TraceCommon, IOUtils

Rec == ndJsonDeserialize(IOEnv.TRACE)
N == Len(Rec)

VARIABLES l, a, cs, viol, nv
vars == <<l, a, cs, viol, nv>>

NoRq == [method |-> "GET", ver10 |-> FALSE, expect |-> FALSE, connclose |-> FALSE]

Init ==
  /\ l = 1
  /\ a = InitFlow(NoRq)
  /\ cs = [id |-> "none", prop |-> "C09"]
  /\ viol = <<>>
  /\ nv = [mine |-> 0, other |-> 0]

Step(fails) ==
  /\ viol' = AddViol(viol, l, cs.id, fails)
  /\ nv' = [mine |-> nv.mine + Cardinality(Mine(fails)), other |-> nv.other + Cardinality(fails \ Mine(fails))]
  /\ l' = l + 1

E == Rec[l]

TCase ==
  /\ E.ev = "case"
  /\ a' = IF "cfg" \in DOMAIN E /\ "cln" \in DOMAIN E.cfg THEN WithFraming(InitFlow(E.rq), E.cfg) ELSE InitFlow(E.rq)
  /\ cs' = [id |-> E.id, prop |-> E.prop]
  /\ Step({})

\* the harness and the specification must agree on the typestate the call was made in
StateFails == FClause("C09", "flow is in a different state than the documented graph prescribes", E.st = a.st)

TCall ==
  /\ E.ev = "call"
  /\ CASE E.op = "despite" ->
            /\ Step({}) /\ a' = [a EXCEPT !.shouldSend = TRUE]
       [] E.op = "proceed" ->
            /\ Step(StateFails \cup ProceedFails(a, E)) /\ a' = ProceedUpd(a, E)
       [] E.op = "sr_write" ->
            \* an error other than output overflow means the request was refused (C17 says when that must happen)
            /\ Step(StateFails)
            /\ a' = [a EXCEPT !.ready = E.ready, !.refused = @ \/ (E.res = "err" /\ ~("overflow" \in DOMAIN E /\ E.overflow))]
       [] E.op = "sb_write" ->
            /\ Step(StateFails \cup SbWriteFails(a, E)) /\ a' = [a EXCEPT !.ready = E.ready, !.bleft = BodyLeftAfter(a, E)]
       [] E.op = "sb_direct" ->
            /\ Step(StateFails \cup SbDirectFails(a, E)) /\ a' = SbDirectUpd(a, E)
       [] E.op = "read" ->
            /\ Step(StateFails) /\ a' = [a EXCEPT !.ready = E.ready]
       [] E.op = "new_flow" ->
            \* a request whose own Transfer-Encoding header is inherited by a bodiless follow-up is refused by C17's rules:
            \* not judged here
            /\ Step(StateFails \cup
                    FClause("C09", "the flow created by following a redirect is not usable",
                            (E.res = "flow" /\ "usable" \in DOMAIN E /\ a.framing # "chunked") => E.usable = "yes"))
            /\ a' = a
       [] E.op = "try_read_100" ->
            /\ Step(StateFails \cup Read100Fails(a, E)) /\ a' = Read100Upd(a, E)
       [] E.op = "try_response" /\ E.kind = "truncated3xx" ->
            \* a 3xx head that stops after a complete Location line (no final CRLF): "need more", or — only as the
            \* listed deviation PartialRedirect (KF1) — a response that consumes everything offered.  In that case the
            \* message boundary is lost, so the connection must never be offered for reuse (C10).
            /\ Step(StateFails \cup
                    FClause("C05", "a truncated head must yield 'need more data' (or the listed deviation PartialRedirect)",
                            (E.res = "none" /\ E.n = 0) \/ (E.res = "some" /\ E.n = E.w /\ "PartialRedirect" \in Known)))
            /\ a' = IF E.res = "some"
                    THEN [a EXCEPT !.status = E.cell.status, !.modes = {NoBody}, !.ready = E.ready, !.facts = @ \cup {"ServerClose"}]
                    ELSE a
       [] E.op = "try_response" ->
            /\ Step(StateFails \cup ResponseFails(a, E)) /\ a' = ResponseUpd(a, E)
       [] E.op = "verdict" ->
            /\ Step(StateFails \cup VerdictFails(a, E)) /\ a' = a
       [] E.op = "status" ->
            /\ Step(StateFails \cup StatusFails(a, E)) /\ a' = a
       [] OTHER ->
            /\ Step({}) /\ a' = a
  /\ UNCHANGED cs

TPanic ==
  /\ E.ev \in {"panic", "stuck"}
  /\ Step({<<cs.prop, E.ev \o " during " \o E.during>>} \cup {<<"C09", E.ev \o " during " \o E.during>>} \cup {<<"C12", E.ev \o " during " \o E.during>>})
  /\ a' = [a EXCEPT !.st = "Dead"]
  /\ UNCHANGED cs

Next == l <= N /\ (TCase \/ TCall \/ TPanic)
Spec == Init /\ [][Next]_vars

Report == l = N + 1 => Verdict(N, viol, nv, [comp |-> "Flow"])
Consumed == TLCGet("stats").diameter = N + 1 \/ PrintT("UNMATCHED " \o ToString(TLCGet("stats").diameter))
=============================================================================
