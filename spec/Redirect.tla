------------------------------- MODULE Redirect -------------------------------
(* Following redirects (Flow<Redirect>::as_new_flow): RFC 3986 reference resolution over
   structured URIs (C14), the method table (C15) and header inheritance (C13).
   Written from RFC 3986 section 5.2 and from the property texts — an oracle independent of
   the `url` crate that the code uses.

   URI  u = [scheme, host, port (0: none), segs, q]
        segs : the path as RFC 3986 segments, i.e. the pieces after each "/":
               "/a/b" = <<"a","b">>, "/a/b/" = <<"a","b","">>, "/" = <<"">>, "" = <<>>
        q    : the query, or "-" for none
   Reference r = [kind, scheme, host, port, segs, q]  (fragment already dropped)
        kind : "abs" | "net" (//host/path) | "abspath" | "relpath" | "query" | "empty" | "bad"      *)
EXTENDS Naturals, Sequences, FiniteSets, TLC

RDClause(p, why, cond) == IF cond THEN {} ELSE {<<p, why>>}

NoQ == "-"

RFront(s) == SubSeq(s, 1, Len(s) - 1)

(* RFC 3986 5.2.4 remove_dot_segments over the segment list *)
RECURSIVE RemoveDotsFrom(_, _)
RemoveDotsFrom(rest, out) ==
  IF rest = <<>> THEN out
  ELSE LET seg  == Head(rest)
           last == Len(rest) = 1
       IN IF seg = "." THEN RemoveDotsFrom(Tail(rest), IF last THEN Append(out, "") ELSE out)
          ELSE IF seg = ".." THEN
                 LET popped == IF out = <<>> THEN <<>> ELSE RFront(out)
                 IN RemoveDotsFrom(Tail(rest), IF last THEN Append(popped, "") ELSE popped)
          ELSE RemoveDotsFrom(Tail(rest), Append(out, seg))
RemoveDots(segs) == RemoveDotsFrom(segs, <<>>)

(* RFC 3986 5.2.3 merge: base has an authority here, so an empty base path merges to "/" + ref *)
Merge(baseSegs, refSegs) == IF baseSegs = <<>> THEN refSegs ELSE RFront(baseSegs) \o refSegs

(* RFC 3986 5.2.2 transform references (strict), fragment dropped *)
Resolve(base, r) ==
  CASE r.kind = "abs"     -> [scheme |-> r.scheme, host |-> r.host, port |-> r.port, segs |-> RemoveDots(r.segs), q |-> r.q]
    [] r.kind = "net"     -> [scheme |-> base.scheme, host |-> r.host, port |-> r.port, segs |-> RemoveDots(r.segs), q |-> r.q]
    [] r.kind = "abspath" -> [base EXCEPT !.segs = RemoveDots(r.segs), !.q = r.q]
    [] r.kind = "relpath" -> [base EXCEPT !.segs = RemoveDots(Merge(base.segs, r.segs)), !.q = r.q]
    [] r.kind = "query"   -> [base EXCEPT !.q = r.q]
    [] OTHER              -> base

(* where printing conventions of URL libraries differ from RFC 3986 text inside our alphabet *)
DefaultPort(scheme) == IF scheme = "http" THEN 80 ELSE IF scheme = "https" THEN 443 ELSE 0
NormPort(u) == IF u.port = DefaultPort(u.scheme) THEN 0 ELSE u.port
NormSegs(segs) == IF segs = <<>> THEN <<"">> ELSE segs          \* empty path == "/"
Norm(u) == [scheme |-> u.scheme, host |-> u.host, port |-> NormPort(u), segs |-> NormSegs(u.segs), q |-> u.q]
SameUri(x, y) == Norm(x) = Norm(y)

RECURSIVE JoinSegs(_)
JoinSegs(segs) == IF segs = <<>> THEN "" ELSE "/" \o Head(segs) \o JoinSegs(Tail(segs))
\* request-target (origin form) of a URI
TargetOf(u) == JoinSegs(NormSegs(u.segs)) \o (IF u.q = NoQ THEN "" ELSE "?" \o u.q)

(***************************************************************************)
(* C15: method table                                                        *)
(***************************************************************************)
BodyMethods == {"POST", "PUT", "PATCH"}
NewMethod(status, m) ==
  IF status \in {307, 308}
  THEN (IF m \in BodyMethods \/ m = "DELETE" THEN "NotFollowed" ELSE m)
  ELSE (IF m \in {"GET", "HEAD"} THEN m ELSE "GET")

(***************************************************************************)
(* C13: Authorization may be kept only under the same-host policy, towards  *)
(* the ORIGINAL host, on the same scheme or https                           *)
(***************************************************************************)
KeepAuth(policy, orig, target) ==
  policy = "SameHost" /\ target.host = orig.host /\ (target.scheme = orig.scheme \/ target.scheme = "https")

(***************************************************************************)
(* Abs guard of one hop: as_new_flow + the head of the request it creates.  *)
(* e: [status, method, policy, orig, cur, ref,                               *)
(*     res ("flow" | "none" | "err"), uri, newmethod, target, hostline,      *)
(*     auth, cookie, clen (header present on the wire of the new request)]   *)
(***************************************************************************)
HopFails(e) ==
  LET nm     == NewMethod(e.status, e.method)
      bad    == e.ref.kind = "bad"
      expect == Resolve(e.cur, e.ref)
  IN IF bad
     THEN RDClause("C14", "a missing, non-textual or unresolvable Location must be reported as an error",
                   e.res = "err" \/ (e.res = "none" /\ nm = "NotFollowed"))
     ELSE
          RDClause("C14", "a Location that resolves (empty, relative, absolute ...) was reported as an error", e.res # "err")
     \cup RDClause("C15", "redirect not followed although the method table says it is",
                   nm # "NotFollowed" => e.res = "flow")
     \cup RDClause("C15", "307/308 with a body-carrying method or DELETE must not be followed",
                   nm = "NotFollowed" => e.res = "none")
     \cup (IF e.res # "flow" THEN {} ELSE
               RDClause("C15", "method of the redirected request differs from the documented table", e.newmethod = nm)
          \cup RDClause("C14", "redirect target is not the RFC 3986 resolution of the last Location against the current URI",
                        SameUri(e.uri, expect))
          \cup RDClause("C14", "request line of the redirected request does not carry the target's path and query",
                        e.target = TargetOf(expect))
          \cup RDClause("C14", "Host header of the redirected request does not name the target's host",
                        \* "host" or "host:port" both name the host
                        e.hostline \in {expect.host} \cup (IF expect.port # 0 THEN {expect.host \o ":" \o ToString(expect.port)} ELSE {}))
          \cup RDClause("C13", "Cookie of the previous request is present in the redirected request", ~e.cookie)
          \cup RDClause("C13", "Content-Length of the previous request is present in the redirected request", ~e.clen)
          \cup RDClause("C13", "Authorization sent although policy / original host / scheme do not allow it",
                        e.auth => KeepAuth(e.policy, e.orig, expect)))

(***************************************************************************)
(* Impl: as_new_flow (src/client/flow.rs:743-817), with mutation-style       *)
(* Defects as negative controls of the model:                                *)
(*   "ResolveAgainstOriginal"  "AuthAgainstPreviousHop"  "AuthHostOnly"      *)
(*   "Only301_302_303"                                                       *)
(***************************************************************************)
ImplHop(status, method, policy, orig, cur, r, defects) ==
  LET base   == IF "ResolveAgainstOriginal" \in defects THEN orig ELSE cur
      target == Resolve(base, r)
      nm     == IF "Only301_302_303" \in defects /\ status \notin {301, 302, 303}
                THEN (IF method \in BodyMethods \/ method = "DELETE" THEN "NotFollowed" ELSE method)
                ELSE NewMethod(status, method)
      prev   == IF "AuthAgainstPreviousHop" \in defects THEN cur ELSE orig
      keep   == policy = "SameHost" /\ target.host = prev.host
                /\ ("AuthHostOnly" \in defects \/ target.scheme = prev.scheme \/ target.scheme = "https")
  IN [status |-> status, method |-> method, policy |-> policy, orig |-> orig, cur |-> cur, ref |-> r,
      res |-> IF r.kind = "bad" THEN "err" ELSE IF nm = "NotFollowed" THEN "none" ELSE "flow",
      uri |-> target, newmethod |-> nm, target |-> TargetOf(target), hostline |-> target.host,
      auth |-> keep, cookie |-> FALSE, clen |-> FALSE]
=============================================================================
