----------------------------- MODULE BodyWriter -----------------------------
(* Request-body writer of ureq-proto (src/body.rs BodyWriter, src/client/call.rs
   Call<WithBody>::write / consume_direct_write, Flow<SendBody>).

   Abs layer  : the contract of one call, as a set of failed clauses
                (empty set = the call is a step the properties allow).
                Shared by the model checker (MCBodyWriter) and by trace
                validation of the real code (TraceBodyWriter).
   Impl layer : the write_chunk loop, parameterised by radix / max chunk,
                with the pinned tree's deviations as named Defects.

   Properties: C03 (chunked), C04 (sized), C18 (max input), C19 (progress). *)
EXTENDS Big, Naturals, Sequences, FiniteSets

Min2(a, b) == IF a < b THEN a ELSE b
Max2(a, b) == IF a > b THEN a ELSE b
Monus(a, b) == IF a >= b THEN a - b ELSE 0

Clause(p, why, cond) == IF cond THEN {} ELSE {<<p, why>>}

RECURSIVE SumNat(_)
SumNat(seq) == IF seq = <<>> THEN 0 ELSE Head(seq) + SumNat(Tail(seq))

(***************************************************************************)
(* State of a writer as the specification tracks it.                       *)
(*   mode  : "sized" | "chunked"                                            *)
(*   left  : Big, bytes still to be accounted for (sized)                   *)
(*   ended : the terminator was emitted (chunked)                           *)
(*   ready : last answer of the readiness query (can_proceed/is_finished)   *)
(***************************************************************************)
InitW(mode, n, ready0) == [mode |-> mode, left |-> n, ended |-> FALSE, ready |-> ready0]

(***************************************************************************)
(* Abs: Content-Length body (C04).                                         *)
(* Event e: [inl, outl, res, c, p, copy_ok, ready]                          *)
(***************************************************************************)
SizedLeftAfter(s, e) == IF e.res = "ok" THEN BigSub(s.left, BigOf(e.c)) ELSE s.left

SizedWriteFails(s, e) ==
  LET refuse == BigLt(s.left, BigOf(e.inl))
      k      == BigMinNat(Min2(e.inl, e.outl), s.left)
      left2  == SizedLeftAfter(s, e)
  IN   Clause("C04", "a write offering more than the remaining bytes must be refused",
              refuse => e.res = "err")
  \cup Clause("C04", "a permitted write was refused", ~refuse => e.res = "ok")
  \cup Clause("C04", "consumed = produced = min(input, output space, remaining)",
              (~refuse /\ e.res = "ok") => (e.c = k /\ e.p = k))
  \cup Clause("C04", "output bytes are not a copy of the input prefix",
              e.res = "ok" => e.copy_ok)
  \cup Clause("C04", "reported finished before N bytes were accounted for",
              ~BigIsZero(left2) => ~e.ready)
  \cup Clause("C04", "not finished although N is reached and the end was signalled",
              (BigIsZero(left2) /\ e.res = "ok") => e.ready)
  \cup Clause("C04", "a refused write changed the readiness",
              e.res = "err" => e.ready = s.ready)
  \cup Clause("C19", "no progress on a length-delimited body although one byte fits",
              \* a refusal consumes nothing either: an error here is "no progress" as well
              (~refuse /\ e.inl > 0 /\ e.outl >= 1 /\ ~BigIsZero(s.left)) => (e.res = "ok" /\ e.c >= 1))

SizedWriteUpd(s, e) == [s EXCEPT !.left = SizedLeftAfter(s, e), !.ready = e.ready]

\* Event e: [amt (Big), res, ready]
SizedDirectFails(s, e) ==
  LET refuse == BigLt(s.left, e.amt)
      left2  == IF e.res = "ok" THEN BigSub(s.left, e.amt) ELSE s.left
  IN   Clause("C04", "a direct write beyond the remaining bytes must be refused",
              refuse => e.res = "err")
  \cup Clause("C04", "a permitted direct write was refused", ~refuse => e.res = "ok")
  \cup Clause("C04", "reported finished before N bytes were accounted for",
              ~BigIsZero(left2) => ~e.ready)
  \cup Clause("C04", "not finished although N is reached and the end was signalled",
              (BigIsZero(left2) /\ e.res = "ok") => e.ready)
  \cup Clause("C04", "a refused direct write changed the readiness",
              e.res = "err" => e.ready = s.ready)

SizedDirectUpd(s, e) ==
  [s EXCEPT !.left = IF e.res = "ok" THEN BigSub(@, e.amt) ELSE @, !.ready = e.ready]

(***************************************************************************)
(* Abs: chunked body (C03) + progress (C19).                               *)
(* Event e: [inl, outl, res, c, p, chunks, term, termlen, junk, ready]      *)
(*   chunks : sequence of [hdr, digits, size, dlen, data_ok] lexed from the *)
(*            p produced bytes; term/termlen : terminators lexed and their  *)
(*            byte length; junk : the produced bytes are not a sequence of  *)
(*            complete chunks / terminators.                                *)
(***************************************************************************)
ChLen(ch)  == ch.hdr + 2 + ch.dlen + 2
SumSizes(chs) == SumNat([i \in 1..Len(chs) |-> chs[i].size])
SumLens(chs)  == SumNat([i \in 1..Len(chs) |-> ChLen(chs[i])])

ChunkedWriteFails(s, e) ==
  LET ok     == e.res = "ok"
      chs    == e.chunks
      refuse == s.ended /\ e.inl > 0
  IN   Clause("C03", "a non-empty write after the end must be refused", refuse => ~ok)
  \* (with less room than the smallest chunk needs, refusing the write outright instead of answering (0, 0) is not
  \* excluded by the statement; a refused write must still change nothing, see below)
  \cup Clause("C03", "a permitted write was refused", ~refuse => (ok \/ (e.inl > 0 /\ e.outl < 6)))
  \cup (IF ~ok
        THEN Clause("C03", "a refused write changed the finished flag", e.ready = s.ready)
        ELSE
             Clause("C03", "output is not a sequence of complete chunks", ~e.junk)
        \cup Clause("C03", "a chunk is empty, or its data is not the consumed input",
                    \A i \in 1..Len(chs) :
                        chs[i].size = chs[i].dlen /\ chs[i].size >= 1 /\ chs[i].data_ok)
        \cup Clause("C03", "consumed count differs from the chunk data emitted",
                    SumSizes(chs) = e.c /\ e.c <= e.inl)
        \cup Clause("C03", "produced count differs from the lexed bytes or exceeds the buffer",
                    e.p = SumLens(chs) + e.termlen /\ e.p <= e.outl)
        \cup Clause("C03", "terminator emitted in response to a non-empty write",
                    e.term > 0 => e.inl = 0)
        \cup Clause("C03", "terminator emitted more than once",
                    e.term + (IF s.ended THEN 1 ELSE 0) <= 1)
        \cup Clause("C03", "a write after the end emitted bytes", s.ended => e.p = 0)
        \cup Clause("C03", "finished flag differs from 'terminator completely emitted'",
                    e.ready = (s.ended \/ e.term > 0))
        \cup Clause("C03", "finishing write with room for the terminator did not emit it",
                    (~s.ended /\ e.inl = 0 /\ e.outl >= 5) => e.term = 1)
        \cup Clause("C19", "no progress although the smallest chunk fits",
                    (~s.ended /\ e.inl > 0 /\ e.outl >= 6) => e.c >= 1))
  \cup Clause("C19", "a write of an unfinished body was refused although the smallest chunk fits: no progress",
              (~s.ended /\ e.inl > 0 /\ e.outl >= 6) => ok)

\* consume_direct_write on a chunked body: there is nothing to account for — refused, and nothing changes
ChunkedDirectFails(s, e) ==
       Clause("C03", "a direct write on a chunked body must be refused", e.res = "err")
  \cup Clause("C03", "a direct write on a chunked body changed the finished flag", e.ready = s.ready)

ChunkedWriteUpd(s, e) ==
  [s EXCEPT !.ended = @ \/ (e.res = "ok" /\ e.term > 0), !.ready = e.ready]

WriteFails(s, e) == IF s.mode = "sized" THEN SizedWriteFails(s, e) ELSE ChunkedWriteFails(s, e)

(***************************************************************************)
(* The transition out of the send-body state (Flow::proceed / Call::into_receive)  *)
(* and the read-only queries, judged under the property of the body's framing.      *)
(*   adv [ready, advanced]      mx [.., ready]                                       *)
(***************************************************************************)
ModeProp(s) == IF s.mode = "sized" THEN "C04" ELSE "C03"
AdvanceFails(s, e) ==
       Clause(ModeProp(s), "the transition to the receive state succeeded although the body is not reported finished",
              e.advanced => e.ready)
  \cup Clause(ModeProp(s), "the body is reported finished but the transition to the receive state is refused",
              e.ready => e.advanced)
  \cup Clause(ModeProp(s), "a read-only readiness query changed its answer without a write in between", e.ready = s.ready)
QueryFails(s, e) ==
  IF "ready" \in DOMAIN e
  THEN Clause(ModeProp(s), "a read-only query (calculate_max_input) changed the finished flag", e.ready = s.ready)
  ELSE {}
WriteUpd(s, e)   == IF s.mode = "sized" THEN SizedWriteUpd(s, e) ELSE ChunkedWriteUpd(s, e)

(***************************************************************************)
(* Abs: relational progress clauses of C19 over a row of probes made with   *)
(* the same output length on fresh writers.  row : inl -> consumed.         *)
(***************************************************************************)
RowFails(row, inl, c, m) ==
       Clause("C19", "offering more input reduced the progress",
              \A q \in DOMAIN row : (q <= inl => row[q] <= c) /\ (inl <= q => c <= row[q]))
  \cup Clause("C19", "consumed less than with only the advertised maximum offered",
              (m \in DOMAIN row /\ inl >= m) => c >= row[m])

(***************************************************************************)
(* Abs: advertised maximum input (C18).  Event e: [n, m, chunked];          *)
(* prev = <<n, m>> of the previous query on the same writer or <<>>.        *)
(***************************************************************************)
MaxInputFails(e, prev) ==
       Clause("C18", "advertised maximum exceeds the buffer length", e.m <= e.n)
  \cup Clause("C18", "advertised maximum of a length-delimited body is not n",
              ~e.chunked => e.m = e.n)
  \cup Clause("C18", "advertised maximum decreased as n grew",
              prev # <<>> => ((prev[1] <= e.n => prev[2] <= e.m) /\ (e.n <= prev[1] => e.m <= prev[2])))

\* the same for buffer lengths beyond TLC's 32-bit integers (n, m as Big limbs; monotonicity against the previous such
\* query is compared by the harness, `mono`)
MaxInputBigFails(e) ==
       Clause("C18", "advertised maximum exceeds the buffer length", ~BigLt(e.n, e.m))
  \cup Clause("C18", "advertised maximum of a length-delimited body is not n", ~e.chunked => e.m = e.n)
  \cup Clause("C18", "advertised maximum decreased as n grew", e.mono)

\* a write of exactly the advertised maximum into an n-byte buffer
MaxWriteFails(e) ==
  Clause("C18", "input of the advertised maximum size was not consumed by one write",
         e.res = "ok" /\ e.c = e.inl)

(***************************************************************************)
(* Impl: the chunk writer (src/body.rs write / write_chunk / finish).      *)
(* Defects (deviations of the pinned tree 2ff804a, each reproduced there):  *)
(*   "OneDigitSizeLine"       chunk sized assuming a one-digit size line;   *)
(*                            a zero-length chunk is written when 5 bytes   *)
(*                            remain (premature terminator)                 *)
(*   "EndedWithoutTerminator" finishing write marks the body ended even if  *)
(*                            the terminator did not fit                    *)
(*   "DoubleTerm"             a repeated finishing write emits it again     *)
(***************************************************************************)
RECURSIVE Digits(_, _)
Digits(n, radix) == IF n < radix THEN 1 ELSE 1 + Digits(n \div radix, radix)

RECURSIVE FitFrom(_, _, _)
\* largest k' <= k with a complete chunk of k' bytes fitting into `space` (0: none)
FitFrom(k, space, radix) ==
  IF k = 0 THEN 0
  ELSE IF Digits(k, radix) + 4 + k <= space THEN k
  ELSE FitFrom(k - 1, space, radix)

RECURSIVE Plan(_, _, _, _, _, _)
\* sequence of chunk sizes written by one write() call; a 0 entry is a zero-length chunk
Plan(inLeft, space, acc, radix, maxChunk, defects) ==
  LET want == Min2(inLeft, maxChunk)
      k0   == Min2(want, Monus(space, 5))
      k    == IF "OneDigitSizeLine" \in defects THEN k0 ELSE FitFrom(k0, space, radix)
      need == Digits(k, radix) + 4 + k
      fits == need <= space /\ (k > 0 \/ "OneDigitSizeLine" \in defects)
  IN IF ~fits THEN acc
     ELSE IF inLeft > k
          THEN Plan(inLeft - k, space - need, Append(acc, k), radix, maxChunk, defects)
          ELSE Append(acc, k)

ImplChunkRec(k, radix) ==
  [hdr |-> Digits(k, radix), digits |-> Digits(k, radix), size |-> k, dlen |-> k, data_ok |-> TRUE]

ErrEvent(inl, outl, ready) ==
  [inl |-> inl, outl |-> outl, res |-> "err", c |-> 0, p |-> 0, chunks |-> <<>>,
   term |-> 0, termlen |-> 0, junk |-> FALSE, copy_ok |-> TRUE, ready |-> ready]

ImplChunkedWrite(s, inl, outl, radix, maxChunk, defects) ==
  IF s.ended /\ inl > 0 THEN ErrEvent(inl, outl, s.ready)
  ELSE IF inl = 0 THEN
    LET again == s.ended /\ "DoubleTerm" \notin defects
        emit  == ~again /\ outl >= 5
        fin   == s.ended \/ emit \/ "EndedWithoutTerminator" \in defects
    IN [inl |-> 0, outl |-> outl, res |-> "ok", c |-> 0, p |-> IF emit THEN 5 ELSE 0,
        chunks |-> <<>>, term |-> IF emit THEN 1 ELSE 0, termlen |-> IF emit THEN 5 ELSE 0,
        junk |-> FALSE, copy_ok |-> TRUE, ready |-> fin]
  ELSE
    LET plan  == Plan(inl, outl, <<>>, radix, maxChunk, defects)
        real  == SelectSeq(plan, LAMBDA k : k > 0)
        zeros == Len(plan) - Len(real)
        chs   == [i \in 1..Len(real) |-> ImplChunkRec(real[i], radix)]
    IN [inl |-> inl, outl |-> outl, res |-> "ok", c |-> SumNat(real),
        p |-> SumLens(chs) + 5 * zeros, chunks |-> chs,
        term |-> zeros, termlen |-> 5 * zeros, junk |-> FALSE, copy_ok |-> TRUE, ready |-> s.ready]

ImplSizedWrite(s, inl, outl) ==
  IF BigLt(s.left, BigOf(inl)) THEN ErrEvent(inl, outl, s.ready)
  ELSE LET k == BigMinNat(Min2(inl, outl), s.left)
       IN [inl |-> inl, outl |-> outl, res |-> "ok", c |-> k, p |-> k, chunks |-> <<>>,
           term |-> 0, termlen |-> 0, junk |-> FALSE, copy_ok |-> TRUE,
           ready |-> BigIsZero(BigSub(s.left, BigOf(k)))]

ImplSizedDirect(s, amt) ==
  IF BigLt(s.left, amt) THEN [amt |-> amt, res |-> "err", ready |-> s.ready]
  ELSE [amt |-> amt, res |-> "ok", ready |-> BigIsZero(BigSub(s.left, amt))]

\* src/body.rs calculate_max_input with its constants as parameters
\* (real code: chunk 10240, overhead 4 + 4 = hex digits of the chunk size + 4)
ImplMaxInput(n, radix, maxChunk) ==
  LET ovh    == Digits(maxChunk, radix) + 4
      unit   == maxChunk + ovh
      chunks == n \div unit
      rem    == n % unit
      tail   == IF rem <= ovh THEN 0 ELSE rem - ovh
  IN chunks * maxChunk + tail
=============================================================================
