SPECIFICATION Spec
CONSTANTS
  NSet = {0, 1, 2, 3, 4}
  TailLen = 2
  OutSet = {0, 1, 2, 3, 5, 9}
  Layer = "Abs"
  Kind = "length"
VIEW view
INVARIANTS Refines NeverBeyondN Verbatim CompleteIffN CloseAlwaysReady
CHECK_DEADLOCK FALSE
