SPECIFICATION Spec
CONSTANTS
  Defects = {"ReceiveBeforeHead"}
  Tolerated = {"ReceiveBeforeHead"}
VIEW view
INVARIANT Refines
CHECK_DEADLOCK FALSE
