----------------------------- MODULE MCSendLoop -----------------------------
(* Liveness of sending a body (C19, C03): a caller that keeps offering its remaining input
   into an output buffer of fixed size >= 6 and then keeps offering the empty finishing write
   eventually has sent everything and finished the body — checked by TLC as a temporal
   property under weak fairness of the caller's loop, without any state constraint.
   With Defects = {"OneDigitSizeLine"} (the pinned algorithm) TLC finds the lasso in which
   write() returns (0, 0) forever.                                                      *)
EXTENDS BodyWriter, TLC
CONSTANTS Radix, MaxChunk, Defects, MaxIn, OutSet

VARIABLES rem, outl, s
vars == <<rem, outl, s>>

Init ==
  /\ rem \in 0..MaxIn
  /\ outl \in OutSet
  /\ s = InitW("chunked", BigZero, FALSE)

Send ==
  /\ rem > 0
  /\ LET e == ImplChunkedWrite(s, rem, outl, Radix, MaxChunk, Defects)
     IN /\ rem' = rem - e.c
        /\ s' = ChunkedWriteUpd(s, e)
  /\ UNCHANGED outl

Finish ==
  /\ rem = 0 /\ ~s.ended
  /\ LET e == ImplChunkedWrite(s, 0, outl, Radix, MaxChunk, Defects)
     IN s' = ChunkedWriteUpd(s, e)
  /\ UNCHANGED <<rem, outl>>

Next == Send \/ Finish
Spec == Init /\ [][Next]_vars /\ WF_vars(Next)

Terminates == <>(rem = 0 /\ s.ended)
=============================================================================
