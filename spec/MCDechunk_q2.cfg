SPECIFICATION Spec
CONSTANTS
  NChunks = 2
  Sizes = {3}
  ZeroSet = {0}
  ExtSet = {"none", "x"}
  TrailerSet = {0, 2}
  OutSet = {0, 1, 64}
  Hostile = FALSE
  Alphabet = {}
  MaxLen = 0
  DumpEdges = FALSE
  ToggleStop = FALSE
VIEW view
ACTION_CONSTRAINT Edge
INVARIANTS Refines NoPanic NoErrOnValid NoOverRead AllPayload EndedIff
CHECK_DEADLOCK FALSE
