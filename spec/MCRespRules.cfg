SPECIFICATION Spec
CONSTANTS
  Statuses = {100, 101, 199, 200, 204, 205, 299, 300, 301, 302, 303, 304, 305, 307, 308, 399, 400, 404, 500, 999}
  Defects = {}
INVARIANTS TableTotal AmbiguousOnlyWhereStated ImplAdmissible SuccessorTotal
CHECK_DEADLOCK FALSE
