SPECIFICATION FairSpec
CONSTANTS
  NChunks = 1
  Sizes = {3}
  ZeroSet = {0}
  ExtSet = {"none", "x"}
  TrailerSet = {0, 1}
  OutSet = {0, 1, 64}
  Hostile = FALSE
  Alphabet = {}
  MaxLen = 0
  DumpEdges = FALSE
  ToggleStop = FALSE
PROPERTY Completes
CHECK_DEADLOCK FALSE
