SPECIFICATION Spec
CONSTANT MaxMutants = 100000
INVARIANTS Dump CountOk
CHECK_DEADLOCK FALSE
