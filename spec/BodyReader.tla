----------------------------- MODULE BodyReader -----------------------------
(* Response-body reader of ureq-proto (src/body.rs BodyReader::read*, src/chunk.rs,
   Call<RecvBody>::read, Flow<RecvBody>).

   Abs layer : contract of one read() call for the three framings, as a set of failed
               clauses; shared by MCDechunk / MCBodyReader and by TraceBodyReader.
                 length : C08   (exact min of three, never beyond N)
                 close  : C08   (pass-through, always ready)
                 chunked: C07   (totals, content, no over-read, ended-iff, one chunk per read)
               all     : C12   (envelope: consumed <= offered, produced <= space)
   Impl layer: the six-state dechunker and the outer read loop, transcribed from
               src/chunk.rs:27-176 and src/body.rs:393-427 over byte values.          *)
EXTENDS Big, Integers, Sequences, FiniteSets

RMin2(a, b) == IF a < b THEN a ELSE b
RClause(p, why, cond) == IF cond THEN {} ELSE {<<p, why>>}
Clamp(x, lo, hi) == IF x < lo THEN lo ELSE IF x > hi THEN hi ELSE x

RECURSIVE RSum(_)
RSum(seq) == IF seq = <<>> THEN 0 ELSE Head(seq) + RSum(Tail(seq))

(***************************************************************************)
(* A chunked coding as the Abs layer sees it (its LAYOUT):                  *)
(*   L   : length of the coding up to and including its final CRLF          *)
(*   pay : sequence of <<start, len>>, the 0-based offset and the length of *)
(*         each chunk's data inside the coding                              *)
(* Reader state: [pos, delivered]  bytes of the coding consumed / payload   *)
(* bytes handed out so far.                                                 *)
(***************************************************************************)
PayBefore(lay, x) ==
  RSum([i \in 1..Len(lay.pay) |-> Clamp(x - lay.pay[i][1], 0, lay.pay[i][2])])
TotalPay(lay) == RSum([i \in 1..Len(lay.pay) |-> lay.pay[i][2]])
CumPay(lay, i) == RSum([j \in 1..i |-> lay.pay[j][2]])
\* chunk that holds the k-th payload byte (1-based), 0 if none
ChunkOfIdx(lay, k) ==
  LET S == { i \in 1..Len(lay.pay) : CumPay(lay, i - 1) < k /\ k <= CumPay(lay, i) }
  IN IF S = {} THEN 0 ELSE CHOOSE i \in S : TRUE

\* Event e: [w, outl, stop, res, c, p, content_ok, ready]
ChunkedReadFails(lay, s, e) ==
  LET pos2  == s.pos + e.c
      del2  == s.delivered + e.p
      ended == s.pos = lay.L
  IN   RClause("C07", "a valid chunked coding was rejected with an error", e.res = "ok")
  \cup (IF e.res # "ok" THEN {} ELSE
             RClause("C12", "consumed more than offered or produced more than the output space",
                     e.c <= e.w /\ e.p <= e.outl)
        \cup RClause("C07", "consumed beyond the final CRLF of the coding (over-read)", pos2 <= lay.L)
        \cup RClause("C07", "output contains bytes that were not consumed as chunk data",
                     del2 <= PayBefore(lay, pos2))
        \cup RClause("C07", "output differs from the chunk data", e.content_ok)
        \cup RClause("C07", "ended flag differs from 'final CRLF consumed'", e.ready = (pos2 = lay.L))
        \cup RClause("C07", "body ended although chunk data was not delivered (payload lost)",
                     pos2 = lay.L => del2 = TotalPay(lay))
        \cup RClause("C07", "one read returned data of two different chunks although boundary stop is on",
                     (e.stop /\ e.p > 0 /\ del2 <= TotalPay(lay))
                        => ChunkOfIdx(lay, s.delivered + 1) = ChunkOfIdx(lay, del2))
        \cup RClause("C07", "no progress although the rest of the coding is present and the output has room",
                     \* room is needed only while chunk data is still undelivered: pure framing (size lines, CRLFs,
                     \* trailers, the final CRLF) must be consumed even into a zero-length output buffer
                     (~ended /\ s.pos + e.w >= lay.L /\ (e.outl >= 1 \/ s.delivered = TotalPay(lay))) => e.c + e.p > 0)
        \cup RClause("C07", "a read after the end consumed or produced bytes",
                     ended => (e.c = 0 /\ e.p = 0)))

\* Extra (id "X03", not a listed property): is_on_chunk_boundary() after a read is true exactly when the
\* next unconsumed byte starts a chunk-size line (offset 0, or right after the CRLF that ends a chunk's data)
BoundaryOffsets(lay) == {0} \cup { lay.pay[i][1] + lay.pay[i][2] + 2 : i \in 1..Len(lay.pay) }
BoundaryFails(lay, s, e) ==
  IF e.res # "ok" THEN {} ELSE
  RClause("X03", "is_on_chunk_boundary() differs from 'the next unconsumed byte starts a chunk-size line'",
          e.boundary = ((s.pos + e.c) \in BoundaryOffsets(lay)))

ChunkedReadUpd(s, e) ==
  IF e.res = "ok" THEN [s EXCEPT !.pos = @ + e.c, !.delivered = @ + e.p] ELSE s

(***************************************************************************)
(* Length-delimited body (C08).  State [left (Big), delivered].            *)
(* Event e: [w, outl, res, c, p, content_ok, ready]                         *)
(***************************************************************************)
LengthReadFails(s, e) ==
  LET k     == BigMinNat(RMin2(e.w, e.outl), s.left)
      left2 == IF e.res = "ok" THEN BigSub(s.left, BigOf(e.c)) ELSE s.left
  IN   RClause("C08", "reading a length-delimited body failed", e.res = "ok")
  \cup (IF e.res # "ok" THEN {} ELSE
             RClause("C08", "a read must move min(input, output space, remaining) bytes",
                     e.c = k /\ e.p = k)
        \cup RClause("C08", "consumed beyond Content-Length (over-read)", BigLeq(BigOf(e.c), s.left))
        \cup RClause("C08", "delivered bytes differ from the body bytes", e.content_ok)
        \cup RClause("C08", "body complete flag differs from 'N bytes delivered'",
                     e.ready = BigIsZero(left2)))

LengthReadUpd(s, e) ==
  IF e.res = "ok" THEN [s EXCEPT !.left = BigSub(@, BigOf(e.c))] ELSE s

(***************************************************************************)
(* Close-delimited body (C08).                                             *)
(***************************************************************************)
CloseReadFails(s, e) ==
  LET k == RMin2(e.w, e.outl)
  IN   RClause("C08", "reading a close-delimited body failed", e.res = "ok")
  \cup (IF e.res # "ok" THEN {} ELSE
             RClause("C08", "close-delimited read must pass min(input, output space) bytes through",
                     e.c = k /\ e.p = k)
        \cup RClause("C08", "delivered bytes differ from the offered bytes", e.content_ok)
        \cup RClause("C08", "a close-delimited body must allow proceeding at any time", e.ready))

\* the verdict read in Cleanup / Redirect after a close-delimited body
CloseVerdictFails(e) ==
  RClause("C08", "connection not marked for closing after a close-delimited body", e.must_close)

(***************************************************************************)
(* Envelope for arbitrary (hostile) input, any framing (C12).              *)
(***************************************************************************)
EnvelopeFails(e) ==
  IF e.res # "ok" THEN {} ELSE
       RClause("C12", "consumed more than offered", e.c <= e.w)
  \cup RClause("C12", "produced more than the output space", e.p <= e.outl)
  \cup RClause("C12", "produced bytes are not an in-order copy of consumed input bytes", e.subseq_ok)

(***************************************************************************)
(* Impl: src/chunk.rs over byte values.                                    *)
(* Decoder state d = [st, left] with st in                                 *)
(*   "Size" "Chunk" "CrLf" "Ending" "Trailer" "Ended"; plus the error      *)
(* results "Err" and "Panic" (an assert! / index out of range).            *)
(***************************************************************************)
CR == 13
LF == 10
SEMI == 59
WS == {9, 10, 11, 12, 13, 32}

IsHex(b) == (b >= 48 /\ b <= 57) \/ (b >= 97 /\ b <= 102) \/ (b >= 65 /\ b <= 70)
HexVal(b) == IF b <= 57 THEN b - 48 ELSE IF b >= 97 THEN b - 87 ELSE b - 55

\* util.rs find_crlf on src[a..z] (1-based, inclusive): 0-based offset of the CR, or -1.
\* Faithful to the code: only the FIRST CR is examined.
FindCrLf(src, a, z) ==
  LET crs == { i \in a..z : src[i] = CR }
  IN IF crs = {} THEN -1
     ELSE LET cr == CHOOSE i \in crs : \A j \in crs : i <= j
          IN IF cr + 1 > z THEN -1 ELSE IF src[cr + 1] = LF THEN cr - a ELSE -1

RECURSIVE HexParse(_, _)
\* value of a non-empty all-hex byte sequence (acc = value so far); -1 if not a number
HexParse(seq, acc) ==
  IF seq = <<>> THEN acc
  ELSE IF ~IsHex(Head(seq)) \/ acc > 100000000 THEN -1
  ELSE HexParse(Tail(seq), acc * 16 + HexVal(Head(seq)))

TrimWS(seq) ==
  LET idx == { i \in 1..Len(seq) : seq[i] \notin WS }
  IN IF idx = {} THEN <<>>
     ELSE SubSeq(seq, CHOOSE i \in idx : \A j \in idx : i <= j, CHOOSE i \in idx : \A j \in idx : i >= j)

SanityCheck == 20

\* One step of parse_input's loop.  r = [d, i, o, more, out] where i / o are index_in /
\* index_out (0-based counts), out the coding positions copied so far.
\* src[a..z] is the window offered to parse_input (absolute 1-based indices into `bytes`).
StepSize(bytes, a, z, r) ==
  LET a2 == a + r.i
      k  == FindCrLf(bytes, a2, z)
  IN IF k = -1 THEN [r EXCEPT !.more = FALSE]
     ELSE IF k > SanityCheck THEN [r EXCEPT !.d = [st |-> "Err", left |-> 0], !.more = FALSE]
     ELSE LET semis  == { j \in a2..RMin2(z, a2 + 99) : bytes[j] = SEMI }
              meta   == IF semis = {} THEN SanityCheck + 1
                        ELSE (CHOOSE j \in semis : \A j2 \in semis : j <= j2) - a2
              lenEnd == RMin2(meta, k)
              str    == TrimWS(SubSeq(bytes, a2, a2 + lenEnd - 1))
              n      == IF str = <<>> THEN -1 ELSE HexParse(str, 0)
          IN IF n = -1 THEN [r EXCEPT !.d = [st |-> "Err", left |-> 0], !.more = FALSE]
             ELSE [r EXCEPT !.i = @ + k + 2,
                            !.d = IF n = 0 THEN [st |-> "Ending", left |-> 0] ELSE [st |-> "Chunk", left |-> n],
                            !.more = TRUE]

StepData(bytes, a, z, olen, r) ==
  LET a2 == a + r.i
      n  == RMin2(RMin2((z - a2) + 1, olen - r.o), r.d.left)
  IN [r EXCEPT !.i = @ + n, !.o = @ + n,
               !.out = @ \o [j \in 1..n |-> a2 + j - 1],
               !.d = IF r.d.left - n = 0 THEN [st |-> "CrLf", left |-> 0] ELSE [st |-> "Chunk", left |-> r.d.left - n],
               !.more = n > 0]

StepCrLf(bytes, a, z, r) ==
  LET k == FindCrLf(bytes, a + r.i, z)
  IN IF k = -1 THEN [r EXCEPT !.more = FALSE]
     ELSE IF k > 0 THEN [r EXCEPT !.d = [st |-> "Err", left |-> 0], !.more = FALSE]
     ELSE [r EXCEPT !.i = @ + 2, !.d = [st |-> "Size", left |-> 0], !.more = FALSE]

StepEnding(bytes, a, z, r) ==
  LET k == FindCrLf(bytes, a + r.i, z)
  IN IF k = -1 THEN [r EXCEPT !.more = FALSE]
     ELSE IF k = 0 THEN [r EXCEPT !.i = @ + 2, !.d = [st |-> "Ended", left |-> 0], !.more = TRUE]
     ELSE [r EXCEPT !.d = [st |-> "Trailer", left |-> 0], !.more = TRUE]

StepTrailer(bytes, a, z, r) ==
  LET k == FindCrLf(bytes, a + r.i, z)
  IN IF k = -1 THEN [r EXCEPT !.more = FALSE]
     ELSE IF k = 0 THEN [r EXCEPT !.d = [st |-> "Panic", left |-> 0], !.more = FALSE]   \* assert!(i > 0)
     ELSE [r EXCEPT !.i = @ + k + 2, !.d = [st |-> "Ending", left |-> 0], !.more = TRUE]

RECURSIVE ParseLoop(_, _, _, _, _)
ParseLoop(bytes, a, z, olen, r) ==
  LET r2 == CASE r.d.st = "Size"    -> StepSize(bytes, a, z, r)
              [] r.d.st = "Chunk"   -> StepData(bytes, a, z, olen, r)
              [] r.d.st = "CrLf"    -> StepCrLf(bytes, a, z, r)
              [] r.d.st = "Ending"  -> StepEnding(bytes, a, z, r)
              [] r.d.st = "Trailer" -> StepTrailer(bytes, a, z, r)
              [] OTHER              -> [r EXCEPT !.more = FALSE]
  IN IF r2.more THEN ParseLoop(bytes, a, z, olen, r2) ELSE r2

\* Dechunker::parse_input on window bytes[a..z] with olen bytes of output
ParseInput(bytes, a, z, olen, d) ==
  ParseLoop(bytes, a, z, olen, [d |-> d, i |-> 0, o |-> 0, more |-> TRUE, out |-> <<>>])

RECURSIVE ReadLoop(_, _, _, _, _, _)
\* body.rs read_chunked: acc = [d, c, p, out]
ReadLoop(bytes, a, z, olen, stop, acc) ==
  LET r    == ParseInput(bytes, a + acc.c, z, olen - acc.p, acc.d)
      acc2 == [d |-> r.d, c |-> acc.c + r.i, p |-> acc.p + r.o, out |-> acc.out \o r.out]
      wlen == (z - a) + 1
  IN IF r.d.st \in {"Err", "Panic"} THEN acc2
     ELSE IF r.i = 0 \/ acc2.c = wlen \/ acc2.p = olen THEN acc2
     ELSE IF r.d.st = "Ended" THEN acc2
     ELSE IF stop /\ r.d.st = "Size" THEN acc2
     ELSE ReadLoop(bytes, a, z, olen, stop, acc2)

\* Call<RecvBody>::read for a chunked body: window bytes[a..z] (z = a - 1: empty), olen output bytes
ImplChunkedRead(bytes, a, z, olen, stop, d) ==
  IF d.st = "Ended" THEN [d |-> d, c |-> 0, p |-> 0, out |-> <<>>]
  ELSE ReadLoop(bytes, a, z, olen, stop, [d |-> d, c |-> 0, p |-> 0, out |-> <<>>])

DInit == [st |-> "Size", left |-> 0]
=============================================================================
