SPECIFICATION Spec
CONSTANTS
  Radix = 16
  MaxChunk = 10240
  Defects = {}
  NMax = 1200
  ExhaustiveIn = 0
INVARIANTS ImplRefinesAbs C18_NotAboveN C18_Monotone C18_MaxIsTaken C19_Progress C19_AtLeastMax C19_MonotoneIn
CHECK_DEADLOCK FALSE
