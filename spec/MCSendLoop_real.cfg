SPECIFICATION Spec
CONSTANTS
  Radix = 16
  MaxChunk = 10240
  Defects = {}
  MaxIn = 600
  OutSet = {6, 7, 20, 21, 22, 261, 262, 1024}
PROPERTY Terminates
CHECK_DEADLOCK FALSE
