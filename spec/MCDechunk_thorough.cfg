SPECIFICATION Spec
CONSTANTS
  NChunks = 3
  Sizes = {1, 2, 17}
  ZeroSet = {0, 1}
  ExtSet = {"none", "x"}
  TrailerSet = {0, 1, 2}
  OutSet = {0, 1, 2, 3, 4, 64}
  Hostile = FALSE
  Alphabet = {}
  MaxLen = 0
  DumpEdges = FALSE
  ToggleStop = FALSE
VIEW view
ACTION_CONSTRAINT Edge
INVARIANTS Refines NoPanic NoErrOnValid NoOverRead AllPayload EndedIff
CHECK_DEADLOCK FALSE
