------------------------------- MODULE Big -------------------------------
(* Unsigned integers beyond TLC's 32-bit range, as three 24-bit limbs.
   <<a2, a1, a0>> denotes a2*B^2 + a1*B + a0.  u64::MAX = <<65535, 16777215, 16777215>>.
   Used for Content-Length values and direct-write amounts (C04, C06, C08). *)
EXTENDS Naturals, Sequences

B == 16777216

BigOf(n) == <<0, n \div B, n % B>>            \* 0 <= n < 2^31
BigZero == <<0, 0, 0>>
BigIsZero(x) == x = BigZero
IsBig(x) == /\ Len(x) = 3
            /\ \A i \in 1..3 : x[i] \in Nat /\ x[i] < B

BigLt(x, y) == \/ x[1] < y[1]
               \/ x[1] = y[1] /\ x[2] < y[2]
               \/ x[1] = y[1] /\ x[2] = y[2] /\ x[3] < y[3]
BigLeq(x, y) == x = y \/ BigLt(x, y)

\* x - y, saturating at zero (so that trackers stay well-defined on bad data)
BigSub(x, y) ==
  IF BigLeq(x, y) THEN BigZero ELSE
  LET b0 == IF x[3] >= y[3] THEN 0 ELSE 1
      d0 == (x[3] + b0 * B) - y[3]
      t1 == y[2] + b0
      b1 == IF x[2] >= t1 THEN 0 ELSE 1
      d1 == (x[2] + b1 * B) - t1
      d2 == x[1] - (y[1] + b1)
  IN <<d2, d1, d0>>

BigSmall(x) == x[1] = 0 /\ x[2] < 128          \* fits 31 bits
BigToNat(x) == x[2] * B + x[3]                 \* only if BigSmall(x)
\* min(n, x) for a small natural n
BigMinNat(n, x) == IF BigSmall(x) /\ BigToNat(x) < n THEN BigToNat(x) ELSE n
=============================================================================
