SPECIFICATION Spec
CONSTANTS
  Radix = 2
  MaxChunk = 5
  Defects = {"OneDigitSizeLine"}
  MaxIn = 40
  OutSet = {6, 7, 8, 9, 10, 11, 12, 13, 14, 15, 16, 17, 18, 19, 20, 21, 22, 23, 24, 25, 26, 27, 28, 29, 30}
PROPERTY Terminates
CHECK_DEADLOCK FALSE
