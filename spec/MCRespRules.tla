----------------------------- MODULE MCRespRules -----------------------------
(* Sweep of the response-framing decision table: every cell is a state.  Checks that the
   rule table is total and decides (at most two admissible modes, only in the documented
   ambiguous cells) and that the code-shaped ImplMode is admissible in every cell; each
   Defects toggle must be refuted (negative controls).                                   *)
EXTENDS RespRules, TLC
CONSTANTS Statuses, Defects
VARIABLES cell
CLs == {"absent", "zero", "n", "huge", "nonnum"}
TEs == {"absent", "chunked", "mixedcase", "list", "other"}
ClVal(k) == IF k = "zero" THEN BigZero ELSE IF k = "n" THEN BigOf(7) ELSE IF k = "huge" THEN <<65535, 16777215, 16777215>> ELSE BigZero
Init == cell \in [method : Methods, status : Statuses, http10 : BOOLEAN, cl : CLs, te : TEs]
Next == UNCHANGED cell
Spec == Init /\ [][Next]_cell
C == [cell EXCEPT !.cl = cell.cl] @@ [clv |-> ClVal(cell.cl)]
TableTotal == Modes(C) # {} /\ Cardinality(Modes(C)) <= 2
AmbiguousOnlyWhereStated == Cardinality(Modes(C)) = 1
ImplAdmissible == ImplMode(C, Defects) \in Modes(C)
SuccessorTotal == \A m \in Modes(C) : AfterHead(m, cell.status) \in {"RecvBody", "Redirect", "Cleanup"}
=============================================================================
