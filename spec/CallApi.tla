------------------------------- MODULE CallApi -------------------------------
(* The single-call API ureq_proto::client::call::Call<State, B> (src/client/call.rs): one
   request/response without the Flow wrapper.  This module extends the specification beyond
   the 20 listed properties (DESIGN.md section 11, step 9): it states the documented contract of
   the type-state conversions and readiness queries, is model-checked (MCCall) and bound to the
   code by trace validation (TraceCall, driver `x01`).  Complaints carry the id "X01", which is
   no listed property: `bin/check X01 quick` is an unregistered extra.

   Abstract state c:
     st      "WithoutBody" | "WithBody" | "RecvResponse" | "RecvBody" | "Done"
     head    head completely written
     wended  request body finished (always TRUE for WithoutBody)
     resp    a final response head was parsed
     mode    body mode of that response: "NoBody" "Length" "Chunked" "Close" or "unset"
     rended  response body ended                                                        *)
EXTENDS Naturals, Sequences, FiniteSets

XClause(why, cond) == IF cond THEN {} ELSE {<<"X01", why>>}

InitCall(withBody) ==
  [st |-> IF withBody THEN "WithBody" ELSE "WithoutBody", head |-> FALSE, wended |-> ~withBody,
   resp |-> FALSE, mode |-> "unset", rended |-> FALSE]

\* is_finished(): WithoutBody = head written; WithBody = body finished; RecvResponse = response received
FinishedFails(c, e) ==
  XClause("is_finished() of a call without body must tell whether the head is written",
          c.st = "WithoutBody" => e.val = c.head)
  \cup XClause("is_finished() of a call with body must tell whether the body is finished",
          c.st = "WithBody" => e.val = c.wended)
  \cup XClause("is_finished() while receiving must tell whether the response head was received",
          c.st = "RecvResponse" => e.val = c.resp)

\* into_receive(): documented "Will error if is_finished() returns false".
\* Deviation observed on the pinned tree and kept as a named toggle of the model (not a listed property):
\*   "ReceiveBeforeHead"  a call without body converts even before its head was written
IntoReceiveFails(c, e, tolerated) ==
  LET fin == IF c.st = "WithoutBody" THEN c.head ELSE c.wended
  IN   XClause("into_receive() must succeed once the request is finished", fin => e.res = "ok")
  \cup XClause("into_receive() must fail while the request is unfinished",
               (~fin /\ ~(c.st = "WithoutBody" /\ "ReceiveBeforeHead" \in tolerated)) => e.res = "err")

\* into_body(): error before the response; None exactly for a response without body
IntoBodyFails(c, e) ==
       XClause("into_body() before a response was received must be an error", ~c.resp => e.res = "err")
  \cup XClause("into_body() after the response must not fail", c.resp => e.res \in {"none", "body"})
  \cup XClause("into_body() must return no body exactly when the response has none",
               c.resp => (e.res = "none" <=> c.mode = "NoBody"))

\* is_ended() / is_close_delimited() in the body state
BodyQueriesFails(c, e) ==
       XClause("is_close_delimited() differs from the body mode", e.closedelim = (c.mode = "Close"))
  \cup XClause("a close-delimited body never reports ended", c.mode = "Close" => ~e.ended)
=============================================================================
