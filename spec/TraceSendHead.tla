---------------------------- MODULE TraceSendHead ----------------------------
(* Trace validation of request analysis and head writing (C02, C16, C17).
   Events (harness/src/drv_req.rs):
     case [id, prop, rq, lens, chk_orig]   one request + the line lengths of its reference head
     run  []                               a new flow/call for the same request (sent := 0)
     srw  [outl,res,n,whole,ready]         one write() while in the send-request state
     head [method,target,version,fields,complete,same_as_ref,chunked_after]   the lexed head
     panic [during]                                                                        *)
EXTENDS SendHead, TraceCommon, IOUtils

Rec == ndJsonDeserialize(IOEnv.TRACE)
N == Len(Rec)

VARIABLES l, cs, sent, viol, nv
vars == <<l, cs, sent, viol, nv>>

NoRq == [method |-> "GET", version |-> "1.1", api |-> "flow", despite |-> FALSE, target |-> "/", hosthex |-> "", hostporthex |-> "", added |-> <<>>, orig |-> <<>>]

NoHead == [method |-> "", target |-> "", version |-> "", fields |-> <<>>, complete |-> FALSE, same_as_ref |-> FALSE, chunked_after |-> "na"]
Init ==
  /\ l = 1
  /\ cs = [id |-> "none", prop |-> "C02", rq |-> NoRq, lens |-> <<>>, chk |-> FALSE, head |-> NoHead]
  /\ sent = 0
  /\ viol = <<>>
  /\ nv = [mine |-> 0, other |-> 0]

Step(fails) ==
  /\ viol' = AddViol(viol, l, cs.id, fails)
  /\ nv' = [mine |-> nv.mine + Cardinality(Mine(fails)), other |-> nv.other + Cardinality(fails \ Mine(fails))]
  /\ l' = l + 1

E == Rec[l]

TCase ==
  /\ E.ev = "case"
  /\ cs' = [id |-> E.id, prop |-> E.prop, rq |-> E.rq, lens |-> E.lens, chk |-> E.chk_orig, head |-> NoHead]
  /\ sent' = 0
  /\ Step({})

TRun ==
  /\ E.ev = "run"
  /\ sent' = 0
  /\ Step({}) /\ UNCHANGED cs

TWrite ==
  /\ E.ev = "srw"
  /\ Step(WriteFails(cs.rq, cs.lens, sent, E))
  /\ sent' = SentAfter(cs.lens, sent, E)
  /\ UNCHANGED cs

THead ==
  /\ E.ev = "head"
  /\ Step(IF Validate(cs.rq) = "reject" THEN {} ELSE HeadFails(cs.rq, E, cs.chk))
  \* the reference head (the first one of a case) is what the view is compared with
  /\ cs' = IF cs.head.complete THEN cs ELSE [cs EXCEPT !.head = E]
  /\ UNCHANGED sent

\* extra X04: the flow's own description of the request it is sending
TView ==
  /\ E.ev = "view"
  /\ Step(ViewFails(cs.rq, cs.head, E))
  /\ UNCHANGED <<cs, sent>>

TPanic ==
  /\ E.ev \in {"panic", "stuck"}
  /\ Step({<<cs.prop, E.ev \o " during " \o E.during>>})
  /\ UNCHANGED <<cs, sent>>

Next == l <= N /\ (TCase \/ TRun \/ TWrite \/ THead \/ TView \/ TPanic)
Spec == Init /\ [][Next]_vars

Report == l = N + 1 => Verdict(N, viol, nv, [comp |-> "SendHead"])
Consumed == TLCGet("stats").diameter = N + 1 \/ PrintT("UNMATCHED " \o ToString(TLCGet("stats").diameter))
=============================================================================
