SPECIFICATION Spec
CONSTANTS
  Schemes = {"http", "https"}
  Hosts = {"a.test", "b.test"}
  Ports = {0, 8080}
  BasePathIdx = {1, 2, 3}
  Queries = {"-", "k=1"}
  RelSegs = {"p", ".", ".."}
  MaxRel = 2
  StatusSet = {302, 307}
  MethodSet = {"GET", "POST", "DELETE"}
  MaxHops = 3
  Defects = {}
  DumpEdges = FALSE
VIEW view
ACTION_CONSTRAINT Edge
INVARIANTS Refines DeadEndsOk
CHECK_DEADLOCK FALSE
