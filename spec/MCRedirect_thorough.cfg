SPECIFICATION Spec
CONSTANTS
  Schemes = {"http", "https"}
  Hosts = {"a.test", "b.test"}
  Ports = {0, 8080}
  BasePathIdx = {1, 2, 3}
  Queries = {"-", "k=1"}
  RelSegs = {"p", ".", ".."}
  MaxRel = 2
  StatusSet = {300, 301, 302, 303, 307, 308, 399}
  MethodSet = {"GET", "HEAD", "POST", "DELETE", "OPTIONS"}
  MaxHops = 3
  Defects = {}
  DumpEdges = FALSE
VIEW view
ACTION_CONSTRAINT Edge
INVARIANTS Refines DeadEndsOk
CHECK_DEADLOCK FALSE
