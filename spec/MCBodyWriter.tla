---------------------------- MODULE MCBodyWriter ----------------------------
(* Bounded model of the request-body writer.
   Layer = "Impl": every call is answered by the implementation-shaped operators of
                   BodyWriter (with Defects); invariant Refines says each answer is an Abs step.
   Layer = "Abs" : every call is answered by ANY event the Abs guards accept (drawn from a
                   finite candidate set); the history invariants then show that conforming to
                   the per-call guards implies the statements of C03 / C04.               *)
EXTENDS BodyWriter, TLC

CONSTANTS Mode, NSet, InSet, OutSet, AmtSet, Radix, MaxChunk, Defects, Layer, MaxCalls

VARIABLES s,      \* writer state (BodyWriter!InitW)
          n0,     \* declared Content-Length (sized)
          hist,   \* ghost: [acc, terms, calls, wireAfterEnd, endedOk]
          last    \* last event and the clauses it failed (observation only; hidden by VIEW)

vars == <<s, n0, hist, last>>
\* `last` is hidden from the fingerprint, except for whether the step failed a clause: otherwise a failing step that
\* leaves the rest of the state unchanged would be merged with its predecessor and never be evaluated by Refines
view == <<s, n0, hist, last.fails # {}>>

NoEvent == [op |-> "init", fails |-> {}]

Init ==
  /\ n0 \in NSet
  /\ s = InitW(Mode, BigOf(n0), FALSE)
  /\ hist = [acc |-> 0, terms |-> 0, calls |-> 0, wireAfterEnd |-> 0, okAtZero |-> FALSE]
  /\ last = NoEvent

(* ---- candidate events of the Abs layer ---- *)
RECURSIVE Compositions(_)
Compositions(c) ==
  IF c = 0 THEN {<<>>}
  ELSE UNION { {<<k>> \o t : t \in Compositions(c - k)} : k \in 1..c }

AbsChunkRec(k, z) ==
  [hdr |-> Digits(k, Radix) + z, digits |-> Digits(k, Radix) + z, size |-> k, dlen |-> k, data_ok |-> TRUE]

AbsChunkedCandidates(inl, outl) ==
  {ErrEvent(inl, outl, r) : r \in BOOLEAN} \cup
  UNION { UNION { { [inl |-> inl, outl |-> outl, res |-> "ok", c |-> c,
                     p |-> SumLens([i \in 1..Len(comp) |-> AbsChunkRec(comp[i], z)]) + 5 * t,
                     chunks |-> [i \in 1..Len(comp) |-> AbsChunkRec(comp[i], z)],
                     term |-> t, termlen |-> 5 * t, junk |-> FALSE, copy_ok |-> TRUE, ready |-> r]
                    : r \in BOOLEAN, t \in 0..2, z \in 0..1 }
                  : comp \in Compositions(c) }
          : c \in 0..inl }

AbsSizedCandidates(inl, outl) ==
  {ErrEvent(inl, outl, r) : r \in BOOLEAN} \cup
  { [inl |-> inl, outl |-> outl, res |-> "ok", c |-> c, p |-> p, chunks |-> <<>>, term |-> 0,
     termlen |-> 0, junk |-> FALSE, copy_ok |-> TRUE, ready |-> r]
    : c \in 0..inl, p \in 0..outl, r \in BOOLEAN }

WriteEvents(inl, outl) ==
  IF Layer = "Impl"
  THEN { IF Mode = "sized" THEN ImplSizedWrite(s, inl, outl)
         ELSE ImplChunkedWrite(s, inl, outl, Radix, MaxChunk, Defects) }
  ELSE { e \in (IF Mode = "sized" THEN AbsSizedCandidates(inl, outl)
                ELSE AbsChunkedCandidates(inl, outl)) : WriteFails(s, e) = {} }

DirectEvents(amt) ==
  IF Layer = "Impl" THEN { ImplSizedDirect(s, amt) }
  ELSE { e \in { [amt |-> amt, res |-> r, ready |-> b] : r \in {"ok", "err"}, b \in BOOLEAN }
         : SizedDirectFails(s, e) = {} }

Write(inl, outl) ==
  /\ hist.calls < MaxCalls
  /\ \E e \in WriteEvents(inl, outl) :
       /\ last' = [op |-> "w", e |-> e, fails |-> WriteFails(s, e)]
       /\ s' = WriteUpd(s, e)
       /\ hist' = [hist EXCEPT
             !.acc = @ + (IF e.res = "ok" THEN e.c ELSE 0),
             !.terms = @ + (IF e.res = "ok" THEN e.term ELSE 0),
             !.calls = @ + 1,
             !.wireAfterEnd = @ + (IF s.ended /\ e.res = "ok" THEN e.p ELSE 0),
             !.okAtZero = (e.res = "ok" /\ BigIsZero(SizedLeftAfter(s, e))) \/ (e.res = "err" /\ @)]
  /\ UNCHANGED n0

Direct(amt) ==
  /\ Mode = "sized"
  /\ hist.calls < MaxCalls
  /\ \E e \in DirectEvents(BigOf(amt)) :
       /\ last' = [op |-> "dw", e |-> e, fails |-> SizedDirectFails(s, e)]
       /\ s' = SizedDirectUpd(s, e)
       /\ hist' = [hist EXCEPT
             !.acc = @ + (IF e.res = "ok" THEN amt ELSE 0),
             !.calls = @ + 1,
             !.okAtZero = (e.res = "ok" /\ BigIsZero(s'.left)) \/ (e.res = "err" /\ @)]
  /\ UNCHANGED n0

Next == \/ \E inl \in InSet, outl \in OutSet : Write(inl, outl)
        \/ \E amt \in AmtSet : Direct(amt)

Spec == Init /\ [][Next]_vars

(* ---- refinement: the implementation-shaped model only takes Abs steps ---- *)
Refines == last.fails = {}

(* ---- history-level statements of C03 ---- *)
TermAtMostOnce   == hist.terms <= 1
FinishedIffTerm  == Mode = "chunked" => (s.ready <=> hist.terms = 1)
NothingAfterEnd  == hist.wireAfterEnd = 0
EndedIsTerm      == Mode = "chunked" => (s.ended <=> hist.terms >= 1)

(* ---- history-level statements of C04 ---- *)
Accounting       == Mode = "sized" => (BigSmall(s.left) /\ hist.acc + BigToNat(s.left) = n0)
NeverBeyondN     == Mode = "sized" => hist.acc <= n0
FinishedOnlyAtN  == Mode = "sized" => (s.ready => hist.acc = n0)
FinishedAtN      == Mode = "sized" => ((hist.acc = n0 /\ hist.okAtZero) => s.ready)
=============================================================================
