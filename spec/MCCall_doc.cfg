SPECIFICATION Spec
CONSTANTS
  Defects = {}
  Tolerated = {}
VIEW view
INVARIANT Refines
CHECK_DEADLOCK FALSE
