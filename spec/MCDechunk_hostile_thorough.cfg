SPECIFICATION Spec
CONSTANTS
  NChunks = 0
  Sizes = {}
  ZeroSet = {}
  ExtSet = {}
  TrailerSet = {}
  OutSet = {0, 1, 64}
  Hostile = TRUE
  Alphabet = {48, 49, 97, 70, 59, 32, 13, 10, 120}
  MaxLen = 5
  DumpEdges = FALSE
  ToggleStop = FALSE
VIEW view
ACTION_CONSTRAINT Edge
INVARIANTS Refines NoPanic NoOverRead
CHECK_DEADLOCK FALSE
