SPECIFICATION Spec
CONSTANTS
  Defects = {"ReceiveBeforeHead"}
  Tolerated = {}
VIEW view
INVARIANT Refines
CHECK_DEADLOCK FALSE
