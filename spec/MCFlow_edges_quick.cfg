SPECIFICATION Spec
CONSTANTS
  MethodSet = {"GET", "POST", "HEAD"}
  StatusSet = {200, 302, 304}
  FramingSet = {"default", "cl2", "chunked"}
  RespClSet = {"absent", "zero", "n"}
  RespTeSet = {"absent", "chunked"}
  RespConnSet = {"absent", "close"}
  PreSet = {"none", "100", "refuseBare", "refuseFields", "refuseFieldsClose"}
  Defects = {}
  DumpEdges = TRUE
  WithQueries = TRUE
VIEW view
ACTION_CONSTRAINT Edge
INVARIANTS Refines NotPanicked HolderMatches TrackerAgrees VerdictIsDisjunction BodySentIffNotRefused Late100SkippedOnce RedirectIff OutcomeDeterministic
CHECK_DEADLOCK FALSE
