----------------------------- MODULE MCSendHead -----------------------------
(* Bounded model of the head writer: heads of <= MaxUnits header lines with lengths from
   LineLens, every sequence of buffer sizes from OutSet, calls continued after completion.
   The greedy implementation-shaped writer must only take Abs steps (Refines) and the
   emitted bytes are always a whole-line prefix of the head.                              *)
EXTENDS SendHead, TLC
CONSTANTS MaxUnits, LineLens, OutSet, Defects, ChunkedBody, ExtraCalls

VARIABLES lens, sent, emitted, extra, last
vars == <<lens, sent, emitted, extra, last>>
\* `last` is hidden from the fingerprint, except for whether the step failed a clause: otherwise a failing step that
\* leaves the rest of the state unchanged would be merged with its predecessor and never be evaluated by Refines
view == <<lens, sent, emitted, extra, last.fails # {}>>

RECURSIVE LSeqs(_)
LSeqs(k) == IF k = 0 THEN {<<>>} ELSE LSeqs(k - 1) \cup { Append(s, x) : s \in { t \in LSeqs(k - 1) : Len(t) = k - 1 }, x \in LineLens }

RQ == [method |-> "GET", version |-> "1.1", api |-> "flow", despite |-> FALSE, added |-> <<>>, orig |-> <<>>]

Init ==
  /\ lens \in { <<5>> \o s \o <<2>> : s \in LSeqs(MaxUnits) \ {<<>>} }
  /\ sent = 0 /\ emitted = 0 /\ extra = 0
  /\ last = [fails |-> {}]

Write(o) ==
  /\ extra < ExtraCalls
  /\ LET e == ImplWrite(lens, sent, o, ChunkedBody, Defects)
     IN /\ last' = [fails |-> WriteFails(RQ, lens, sent, e), e |-> e]
        /\ sent' = SentAfter(lens, sent, e)
        /\ emitted' = emitted + e.n
        /\ extra' = IF sent = Len(lens) THEN extra + 1 ELSE extra
  /\ UNCHANGED lens

Next == \E o \in OutSet : Write(o)
Spec == Init /\ [][Next]_vars

Refines       == last.fails = {}
WholeLines    == emitted = SSum(SubSeq(lens, 1, sent))
NothingAfter  == emitted <= SSum(lens)
=============================================================================
