-------------------------------- MODULE Faults --------------------------------
(* Fault model for C12: grammar-aware mutations of valid exchanges.
   An exchange is a sequence of typed SEGMENTS (the harness renders segments to bytes):
     [t |-> "status", ver, code, reason]  [t |-> "field", name, val]  [t |-> "blank"]
     [t |-> "size", n, ext]  [t |-> "data", n]  [t |-> "crlf"]  [t |-> "trailer", name, val]
     [t |-> "raw", bytes]  (stray bytes)
   Mutation operators are applied at every structural position of every base exchange;
   TLC enumerates (exchange, operator, site) exhaustively and prints one FAULT line each.   *)
EXTENDS Naturals, Sequences, FiniteSets, SequencesExt, Json, TLC

CONSTANTS MaxMutants

St(ver, code, reason) == [t |-> "status", ver |-> ver, code |-> code, reason |-> reason]
Fd(name, val) == [t |-> "field", name |-> name, val |-> val]
Bl == [t |-> "blank"]
Sz(n, ext) == [t |-> "size", n |-> n, ext |-> ext]
Dt(n) == [t |-> "data", n |-> n]
Cr == [t |-> "crlf"]
Tr(name, val) == [t |-> "trailer", name |-> name, val |-> val]
Raw(b) == [t |-> "raw", bytes |-> b]

\* base exchanges: [req (request configuration tag), segs]
Bases == <<
  [req |-> "get",  segs |-> <<St("1.1", "200", "OK"), Fd("Content-Length", "5"), Fd("X-A", "b"), Bl, Dt(5)>>],
  [req |-> "get",  segs |-> <<St("1.1", "200", "OK"), Fd("Transfer-Encoding", "chunked"), Bl, Sz("3", ""), Dt(3), Cr, Sz("a", ";x=1"), Dt(10), Cr, Sz("0", ""), Tr("t", "v"), Bl>>],
  [req |-> "get",  segs |-> <<St("1.1", "302", "Found"), Fd("Location", "/next"), Fd("Content-Length", "0"), Bl>>],
  [req |-> "post-expect", segs |-> <<St("1.1", "100", "Continue"), Bl, St("1.1", "200", "OK"), Fd("Content-Length", "2"), Bl, Dt(2)>>],
  [req |-> "post-expect", segs |-> <<St("1.1", "403", "Forbidden"), Fd("Connection", "close"), Bl, Dt(4)>>],
  [req |-> "get",  segs |-> <<St("1.0", "200", "OK"), Fd("Server", "x"), Bl, Dt(6)>>],
  [req |-> "head", segs |-> <<St("1.1", "204", "No Content"), Fd("Content-Length", "9"), Bl>>],
  [req |-> "post10-close-expect", segs |-> <<St("1.1", "417", "No"), Fd("Connection", "close"), Fd("X-A", "b"), Bl, Dt(3)>>],
  \* an ordinary login: POST with credentials, cookie and content description, answered by See Other (then followed)
  [req |-> "post-login", segs |-> <<St("1.1", "303", "See Other"), Fd("Location", "/welcome"), Fd("Content-Length", "0"), Bl,
                                    St("1.1", "302", "Found"), Fd("Location", "http://b.test/home"), Fd("Content-Length", "0"), Bl,
                                    St("1.1", "200", "OK"), Fd("Content-Length", "2"), Bl, Dt(2)>>],
  \* the caller gives up waiting for 100-continue and sends the body: the 100 arrives late, in the receive state
  [req |-> "post-expect-giveup", segs |-> <<St("1.1", "100", "Continue"), Bl, St("1.1", "200", "OK"), Bl, Dt(3)>>],
  \* interim responses with fields, every one of them asking to close the connection
  [req |-> "get10-close", segs |-> <<St("1.1", "103", "Early Hints"), Fd("Connection", "close"), Bl, St("1.1", "103", "Early Hints"), Fd("Connection", "close"), Bl,
                                     St("1.1", "102", "Processing"), Fd("Connection", "close"), Bl, St("1.1", "200", "OK"), Fd("Connection", "close"), Bl, Dt(4)>>]
>>

Idx(s) == 1..Len(s)
RemoveAtIdx(s, i) == SubSeq(s, 1, i - 1) \o SubSeq(s, i + 1, Len(s))
InsBefore(s, i, x) == SubSeq(s, 1, i - 1) \o <<x>> \o SubSeq(s, i, Len(s))
Replace(s, i, x) == [s EXCEPT ![i] = x]

HugeNumber == "99999999999999999999"

\* the number carried by a segment made oversize (segments without a number are left alone)
Oversize(x) ==
  CASE x.t = "status" -> [x EXCEPT !.code = "9999"]
    [] x.t = "field" /\ x.name = "Content-Length" -> [x EXCEPT !.val = HugeNumber]
    [] x.t = "size" -> [x EXCEPT !.n = "fffffffffffffffff"]
    [] OTHER -> x

\* corrupt the key byte class of a segment
Flip(x) ==
  CASE x.t = "status" -> [x EXCEPT !.ver = "9.9"]
    [] x.t = "field" -> [x EXCEPT !.name = x.name \o " "]
    [] x.t = "size" -> [x EXCEPT !.n = "zz"]
    [] x.t = "trailer" -> [x EXCEPT !.name = ""]
    [] x.t = "blank" -> Raw("\n")
    [] x.t = "crlf" -> Raw("\r")
    [] OTHER -> x

\* a byte >= 0x80 (obs-text) appended to a field value; the harness renders the marker <HI> as 0xE5
HighBit(x) == IF x.t \in {"field", "trailer"} THEN [x EXCEPT !.val = x.val \o "<HI>"] ELSE x

Mutations(b) ==
  LET s == b.segs IN
       { [req |-> b.req, op |-> "delete",   site |-> i, segs |-> RemoveAtIdx(s, i)] : i \in Idx(s) }
  \cup { [req |-> b.req, op |-> "dup",      site |-> i, segs |-> InsBefore(s, i, s[i])] : i \in Idx(s) }
  \cup { [req |-> b.req, op |-> "truncate", site |-> i, segs |-> SubSeq(s, 1, i)] : i \in Idx(s) }
  \cup { [req |-> b.req, op |-> "oversize", site |-> i, segs |-> Replace(s, i, Oversize(s[i]))] : i \in { j \in Idx(s) : Oversize(s[j]) # s[j] } }
  \cup { [req |-> b.req, op |-> "flip",     site |-> i, segs |-> Replace(s, i, Flip(s[i]))] : i \in { j \in Idx(s) : Flip(s[j]) # s[j] } }
  \cup { [req |-> b.req, op |-> "highbit",  site |-> i, segs |-> Replace(s, i, HighBit(s[i]))] : i \in { j \in Idx(s) : HighBit(s[j]) # s[j] } }
  \cup { [req |-> b.req, op |-> "strayCR",  site |-> i, segs |-> InsBefore(s, i, Raw("\r"))] : i \in Idx(s) }
  \cup { [req |-> b.req, op |-> "strayLF",  site |-> i, segs |-> InsBefore(s, i, Raw("\n"))] : i \in Idx(s) }
  \cup { [req |-> b.req, op |-> "swap",     site |-> i, segs |-> Replace(Replace(s, i, s[i + 1]), i + 1, s[i])] : i \in 1..(Len(s) - 1) }

\* the whole exchange from a server that ends its lines with a bare LF (rendered so by the harness for the "lf-" operations),
\* complete and cut off after every segment
LfOnly(b) ==
  LET s == b.segs IN
       { [req |-> b.req, op |-> "lf-truncate", site |-> i, segs |-> SubSeq(s, 1, i)] : i \in Idx(s) }
  \cup { [req |-> b.req, op |-> "lf-only", site |-> 0, segs |-> s] }
  \cup { [req |-> b.req, op |-> "lf-delete", site |-> i, segs |-> RemoveAtIdx(s, i)] : i \in { j \in Idx(s) : s[j].t = "blank" } }

\* framing fields whose value is empty, a bare list separator, padded or signed: a head like any other to the parser, an odd one to
\* whoever decides the framing from it
OddFramingValues == {"", ",", ", ,", " ", "chunked,", ",chunked", ", chunked", "chunked, ", "chunked,,", "gzip,", ",,", ";", "chunked;q=1"}
OddLengthValues == {"", ",", "5,", ",5", "5, 5", "+5", "-0", " 5 ", "5 ", "0x5", "5;", "05", "5.0", "5<HI>"}
OddFraming ==
  { [req |-> r, op |-> "odd-transfer-encoding", site |-> 0,
     segs |-> <<St("1.1", c, "OK"), Fd("Transfer-Encoding", v), Bl, Sz("3", ""), Dt(3), Cr, Sz("0", ""), Bl>>]
    : v \in OddFramingValues, r \in {"get", "head", "post-expect"}, c \in {"200", "302"} } \cup
  { [req |-> r, op |-> "odd-content-length", site |-> 0,
     segs |-> <<St("1.1", "200", "OK"), Fd("Content-Length", v), Bl, Dt(5)>>]
    : v \in OddLengthValues, r \in {"get", "head"} } \cup
  { [req |-> "get", op |-> "odd-framing-pair", site |-> 0,
     segs |-> <<St("1.1", "200", "OK"), Fd("Transfer-Encoding", v), Fd("Content-Length", w), Bl, Dt(5)>>]
    : v \in {"", ",", "chunked,"}, w \in {"", "5", "5, 5"} }

\* many interim responses before the final one
ManyInterim ==
  { [req |-> r, op |-> "many-interim", site |-> n,
     segs |-> [k \in 1..(3 * n) |-> CASE k % 3 = 1 -> St("1.1", c, "Hint") [] k % 3 = 2 -> Fd("Connection", "close") [] OTHER -> Bl]
              \o <<St("1.1", "200", "OK"), Fd("Connection", "close"), Bl, Dt(4)>>]
    : n \in {1, 4, 5, 6, 9}, r \in {"get", "get10-close", "post-expect-giveup"}, c \in {"103", "102", "199"} }

Splices ==
  { [req |-> Bases[a].req, op |-> "splice", site |-> i, segs |-> SubSeq(Bases[a].segs, 1, i) \o SubSeq(Bases[c].segs, j, Len(Bases[c].segs))]
    : a \in Idx(Bases), c \in Idx(Bases), i \in {1, 2, 3}, j \in {2, 3, 4} }

\* structural extremes that are not mutations of a position
Extremes ==
  { [req |-> "get", op |-> "many-fields", site |-> n, segs |-> <<St("1.1", "200", "OK")>> \o [k \in 1..n |-> Fd("X-N", "v")] \o <<Bl>>] : n \in {128, 129, 200} }
  \cup { [req |-> r, op |-> "long-name", site |-> n, segs |-> <<St("1.1", "200", "OK"), [t |-> "field", name |-> "LONGNAME", val |-> "v", repeat |-> n], Bl>>] : n \in {65535, 65536, 70000}, r \in {"get", "post-expect"} }
  \cup { [req |-> "get", op |-> "long-value", site |-> n, segs |-> <<St("1.1", "200", "OK"), [t |-> "field", name |-> "X-V", val |-> "LONGVALUE", repeat |-> n], Bl>>] : n \in {70000} }
  \cup { [req |-> "get", op |-> "long-reason", site |-> n, segs |-> <<[t |-> "status", ver |-> "1.1", code |-> "200", reason |-> "LONGREASON", repeat |-> n], Bl>>] : n \in {70000} }

\* redirects whose Location is odd (accepted by one URI parser and refused by another, unterminated, empty ...),
\* followed by a second redirect and a final response on the same stream: the follow-up calls must not panic
OddLocations == {"http://b.test:99999/x", "http://[::1", "//", "http://a b/", "http:///x", "?", "#f", "http://", "http://b.test:/x",
                 "HTTP://B.TEST/%zz", "http://b.test/\\x", "x:y", "/../../..", "http://b.test:80:80/",
                 "\"", "<", ">", "\"\"", "<>", ",", "'", "\"/x", "</x>", "a,b", "/x,http://c.test/y", "http://b.test//", "http://b.test/a?", "http://b.test.", "%", "%zz", "[", "]", "@", "http://@/", "http://:80/"}
\* long Locations of obs-text bytes at every alignment (error texts that quote a Location must cope with any length)
RECURSIVE RepStr(_, _)
RepStr(x, n) == IF n = 0 THEN "" ELSE x \o RepStr(x, n - 1)
LongOddLocations == { pre \o RepStr("<HI>", n) : pre \in {"/", "/a", "/ab", "http://b.test/"}, n \in {42, 43, 60, 129} }
OddRedirects ==
  { [req |-> r, op |-> "odd-location", site |-> 0,
     segs |-> <<St("1.1", "302", "Found"), Fd("Location", loc), Fd("Content-Length", "0"), Bl,
                St("1.1", "200", "OK"), Fd("Content-Length", "0"), Bl>>] : loc \in LongOddLocations, r \in {"get"} } \cup
  { [req |-> r, op |-> "odd-location", site |-> 0,
     segs |-> <<St("1.1", "302", "Found"), Fd("Location", loc), Fd("Content-Length", "0"), Bl,
                St("1.1", "307", "Again"), Fd("Location", "/next"), Fd("Content-Length", "0"), Bl,
                St("1.1", "200", "OK"), Fd("Content-Length", "0"), Bl>>] : loc \in OddLocations, r \in {"get", "head"} }

All == OddRedirects \cup OddFraming \cup ManyInterim \cup UNION { LfOnly(Bases[k]) : k \in Idx(Bases) } \cup UNION { Mutations(Bases[k]) : k \in Idx(Bases) } \cup Splices \cup Extremes \cup { [req |-> Bases[k].req, op |-> "none", site |-> 0, segs |-> Bases[k].segs] : k \in Idx(Bases) }

Table == SetToSeq(All)

VARIABLE k
Init == k \in 1..Len(Table)
Next == UNCHANGED k
Spec == Init /\ [][Next]_k
WellFormed == Table[k].segs \in Seq([t : STRING]) \/ TRUE
Dump == PrintT("FAULT " \o ToJson(Table[k]))
CountOk == Len(Table) <= MaxMutants
=============================================================================
