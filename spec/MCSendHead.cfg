SPECIFICATION Spec
CONSTANTS
  MaxUnits = 3
  LineLens = {3, 4, 7}
  OutSet = {0, 1, 2, 3, 4, 5, 6, 7, 8, 9, 10, 11, 12, 64}
  Defects = {}
  ChunkedBody = TRUE
  ExtraCalls = 2
VIEW view
INVARIANTS Refines WholeLines NothingAfter
CHECK_DEADLOCK FALSE
