SPECIFICATION Spec
CONSTANTS
  MethodSet = {"GET", "HEAD", "POST", "PUT", "DELETE", "CONNECT", "OPTIONS", "TRACE", "PATCH"}
  StatusSet = {200, 204, 301, 302, 304, 307, 403, 500}
  FramingSet = {"default", "cl0", "cl2", "chunked"}
  RespClSet = {"absent", "zero", "n"}
  RespTeSet = {"absent", "chunked"}
  RespConnSet = {"absent", "close", "keepalive", "two"}
  PreSet = {"none", "100", "refuseBare", "refuseFields", "refuseFieldsClose"}
  Defects = {}
  DumpEdges = FALSE
  WithQueries = TRUE
VIEW view
ACTION_CONSTRAINT Edge
INVARIANTS Refines NotPanicked HolderMatches TrackerAgrees VerdictIsDisjunction BodySentIffNotRefused Late100SkippedOnce RedirectIff OutcomeDeterministic
CHECK_DEADLOCK FALSE
