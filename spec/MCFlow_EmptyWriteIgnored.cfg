SPECIFICATION Spec
CONSTANTS
  MethodSet = {"GET", "HEAD", "POST", "CONNECT"}
  StatusSet = {200, 204, 302, 304, 403}
  FramingSet = {"default", "cl0", "cl2", "chunked"}
  RespClSet = {"absent", "zero", "n"}
  RespTeSet = {"absent", "chunked"}
  RespConnSet = {"absent", "close", "two"}
  PreSet = {"none", "100", "refuseBare", "refuseFields", "refuseFieldsClose"}
  Defects = {"EmptyWriteIgnoredForSized"}
  DumpEdges = FALSE
  WithQueries = TRUE
VIEW view
ACTION_CONSTRAINT Edge
INVARIANTS Refines NotPanicked HolderMatches TrackerAgrees VerdictIsDisjunction BodySentIffNotRefused Late100SkippedOnce RedirectIff OutcomeDeterministic
CHECK_DEADLOCK FALSE
