SPECIFICATION Spec
CONSTANTS
  Mode = "sized"
  NSet = {0,1,2,3,4,5,6}
  InSet = {0,1,2,3,4,5,6,7}
  OutSet = {0,1,2,3,4,5,6,7}
  AmtSet = {0,1,2,3,4,5,6,7}
  Radix = 16
  MaxChunk = 10240
  Defects = {}
  Layer = "Abs"
  MaxCalls = 6
VIEW view
INVARIANTS Refines Accounting NeverBeyondN FinishedOnlyAtN FinishedAtN
CHECK_DEADLOCK FALSE
