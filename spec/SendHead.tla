------------------------------- MODULE SendHead -------------------------------
(* Request analysis and the line-atomic head writer (C02, C16, C17).
   (src/client/amended.rs analyze, src/client/call.rs analyze_request / try_write_prelude,
    Flow<SendRequest>::write, Call<WithoutBody|WithBody>::write.)

   A request as the specification sees it (rq):
     method, version ("0.9" "1.0" "1.1" "2" "3"), api ("flow" | "call_without" | "call_with"),
     despite (send_body_despite_method), target (path-and-query of the effective URI),
     host (host of the effective URI),
     added : caller-added headers, orig : original headers AFTER suppression of inherited ones,
       each header [n (lower-case name), v (hex of the value bytes), k (class)] with class
         "num" / "nonnum" / "nontext"  for content-length,
         "chunked" / "other" / "nontext" for transfer-encoding,
         "text" / "nontext" otherwise.                                                      *)
EXTENDS Naturals, Sequences, FiniteSets

SClause(p, why, cond) == IF cond THEN {} ELSE {<<p, why>>}

RECURSIVE SSum(_)
SSum(seq) == IF seq = <<>> THEN 0 ELSE Head(seq) + SSum(Tail(seq))

Eff(rq) == rq.added \o rq.orig
Named(seq, name) == SelectSeq(seq, LAMBDA h : h.n = name)
Count(seq, name) == Len(Named(seq, name))

Known10 == {"GET", "HEAD", "POST"}
Known11 == {"GET", "HEAD", "POST", "PUT", "DELETE", "CONNECT", "OPTIONS", "TRACE", "PATCH"}
NeedsBody(m) == m \in {"POST", "PUT", "PATCH"}

HasChunkedTE(rq) == \E i \in 1..Len(Eff(rq)) : Eff(rq)[i].n = "transfer-encoding" /\ Eff(rq)[i].k = "chunked"
HasCL(rq) == Count(Eff(rq), "content-length") >= 1

DefaultFraming(rq) ==
  IF rq.api = "call_with" THEN "chunked"
  ELSE IF rq.api = "call_without" THEN "none"
  ELSE IF NeedsBody(rq.method) \/ rq.despite THEN "chunked" ELSE "none"

\* the framing the body will use: "chunked" | "sized" | "none"
Framing(rq) == IF HasChunkedTE(rq) THEN "chunked" ELSE IF HasCL(rq) THEN "sized" ELSE DefaultFraming(rq)

\* "ok" | "reject" | "either"   (C17)
Validate(rq) ==
  LET eff   == Eff(rq)
      cls   == Named(eff, "content-length")
      hosts == Named(eff, "host")
      skip  == rq.api = "flow" /\ rq.despite
      hasB  == Framing(rq) # "none"
  IN IF rq.version \notin {"1.0", "1.1"} THEN "reject"
     ELSE IF ~(rq.method \in Known10 \/ (rq.version = "1.1" /\ rq.method \in Known11)) THEN "reject"
     ELSE IF Len(hosts) > 1 \/ Len(cls) > 1 THEN "reject"
     ELSE IF Len(cls) = 1 /\ cls[1].k # "num" THEN "reject"
     ELSE IF ~skip /\ (NeedsBody(rq.method) # hasB) THEN "reject"
     ELSE IF Len(hosts) = 1 /\ hosts[1].k = "nontext" THEN "either"
     ELSE "ok"

(***************************************************************************)
(* Abs: one write() call while sending the head.                            *)
(* State: sent = number of head lines emitted; lens = byte length of every  *)
(* line of the head (request line, header lines, final empty line = 2),     *)
(* taken from a reference run of the same request with one big buffer       *)
(* (the head event checks that reference against the request).              *)
(* e: [outl, res ("ok" | "overflow" | "err"), n, whole, ready]                *)
(***************************************************************************)
LinePrefixes(lens, sent) == { SSum(SubSeq(lens, sent + 1, sent + k)) : k \in 1..(Len(lens) - sent) }

WriteFails(rq, lens, sent, e) ==
  LET verdict == Validate(rq)
      total   == Len(lens)
      done    == sent = total
      nextLen == IF done THEN 0 ELSE lens[sent + 1]
      \* the empty line is glued to the last header line by the code; the property calls both
      \* "whole lines", so in that 2-byte band both answers are accepted
      lastHdr == sent + 2 = total
  IN IF verdict = "reject" \/ (verdict = "either" /\ e.res = "err")
     THEN   SClause("C17", "an invalid request must be refused on every write", e.res = "err")
       \cup SClause("C17", "a refused request must never become ready to advance", ~e.ready)
     ELSE   SClause("C17", "a valid request was refused", e.res # "err")
       \cup SClause("C02", "writing the head of a valid request failed with an error other than output overflow (no head is ever emitted)", e.res # "err")
       \cup (IF e.res = "err" THEN {} ELSE
             IF done THEN
                  SClause("C02", "a write after the head is complete emitted bytes or failed",
                          e.res = "ok" /\ e.n = 0)
             \cup SClause("C02", "head complete but the flow is not ready to advance", e.ready)
             ELSE
                  SClause("C02", "output overflow although the next line fits",
                          e.res = "overflow" => (nextLen > e.outl \/ (lastHdr /\ nextLen + 2 > e.outl)))
             \cup SClause("C02", "no overflow error although not even the next line fits",
                          nextLen > e.outl => e.res = "overflow")
             \cup SClause("C02", "a call must emit one or more whole next lines that fit the buffer",
                          e.res = "ok" => (e.n \in LinePrefixes(lens, sent) /\ e.n <= e.outl /\ e.whole))
             \cup SClause("C02", "readiness differs from 'head completely emitted'",
                          e.ready = (e.res = "ok" /\ sent + 0 < total /\ e.n = SSum(SubSeq(lens, sent + 1, total)))))

\* number of lines emitted after the call
SentAfter(lens, sent, e) ==
  IF e.res # "ok" \/ e.n = 0 THEN sent
  ELSE LET ks == { k \in 1..(Len(lens) - sent) : SSum(SubSeq(lens, sent + 1, sent + k)) = e.n }
       IN IF ks = {} THEN sent ELSE sent + (CHOOSE k \in ks : TRUE)

(***************************************************************************)
(* Abs: content of the complete head (C02, C16).                            *)
(* h: [method, target, version, fields (seq of [n, v]), complete, same_as_ref,*)
(*     chunked_after ("yes" | "no" | "na")]                                  *)
(***************************************************************************)
NV(seq) == [i \in 1..Len(seq) |-> [n |-> seq[i].n, v |-> seq[i].v]]

\* remove the first element of seq whose index is in the set idx (no-op if idx is empty)
RemoveFirstAt(seq, idx) ==
  IF idx = {} THEN seq
  ELSE LET i == CHOOSE j \in idx : \A k \in idx : j <= k
       IN SubSeq(seq, 1, i - 1) \o SubSeq(seq, i + 1, Len(seq))

HexChunked == "6368756e6b6564"   \* "chunked"

HeadFails(rq, h, chkOrig) ==
  LET eff      == NV(Eff(rq))
      F        == h.fields
      fr       == Framing(rq)
      autoHost == Count(Eff(rq), "host") = 0
      autoTE   == fr = "chunked" /\ ~HasChunkedTE(rq)
      F1       == IF autoHost THEN RemoveFirstAt(F, { i \in 1..Len(F) : F[i].n = "host" }) ELSE F
      F2       == IF autoTE THEN RemoveFirstAt(F1, { i \in 1..Len(F1) : F1[i].n = "transfer-encoding" /\ F1[i].v = HexChunked }) ELSE F1
      na       == Len(rq.added)
      rest     == IF Len(F2) >= na THEN SubSeq(F2, na + 1, Len(F2)) ELSE <<>>
      origNV   == NV(rq.orig)
      names    == { origNV[i].n : i \in 1..Len(origNV) } \cup { rest[i].n : i \in 1..Len(rest) }
  IN   SClause("C02", "emitted bytes are not exactly one complete request head", h.complete)
  \cup SClause("C02", "head bytes depend on the output buffer schedule", h.same_as_ref)
  \cup SClause("C02", "request line differs from method / path-and-query / version of the request",
               h.method = rq.method /\ h.target = rq.target /\ h.version = rq.version)
  \cup SClause("C16", "a header added by the caller is missing, reordered or not ahead of the original headers",
               Len(F2) >= na /\ SubSeq(F2, 1, na) = NV(rq.added))
  \cup (IF ~chkOrig THEN {} ELSE
        SClause("C02", "original headers on the wire differ from the request's (as a multiset with per-name order)",
               Len(rest) = Len(origNV) /\ \A nm \in names :
                   SelectSeq(rest, LAMBDA x : x.n = nm) = SelectSeq(origNV, LAMBDA x : x.n = nm)))
  \cup SClause("C02", "the head must contain exactly one Host header", Count(F, "host") = 1)
  \cup SClause("C02", "the automatic Host header does not name the URI host",
               \* "host" or "host:port" (hostporthex) both name the URI host
               autoHost => \E i \in 1..Len(F) : F[i].n = "host" /\ F[i].v \in {rq.hosthex, rq.hostporthex})
  \cup SClause("C02", "framing header missing, duplicated or not the one the body uses",
               CASE fr = "chunked" -> (\E i \in 1..Len(F) : F[i].n = "transfer-encoding" /\ F[i].v \in {HexChunked} \cup { Eff(rq)[j].v : j \in { jj \in 1..Len(Eff(rq)) : Eff(rq)[jj].k = "chunked" } })
                                      /\ Count(F, "transfer-encoding") = Count(Eff(rq), "transfer-encoding") + (IF autoTE THEN 1 ELSE 0)
                 [] fr = "sized"   -> Count(F, "content-length") = 1 /\ Count(F, "transfer-encoding") = Count(Eff(rq), "transfer-encoding")
                 [] OTHER          -> Count(F, "content-length") = Count(Eff(rq), "content-length")
                                      /\ Count(F, "transfer-encoding") = Count(Eff(rq), "transfer-encoding"))
  \cup SClause("C02", "the body that follows does not use the framing announced in the head",
               h.chunked_after # "na" => (h.chunked_after = "yes" <=> fr = "chunked"))

(***************************************************************************)
(* Extra X04 (no listed property): the request as the flow presents it in   *)
(* the send-request state — method(), uri(), version(), headers_map() —     *)
(* agrees with the head it puts on the wire.                                *)
(* v: [res ("ok" | "err"), method, target, version, map (seq of [n, v])]    *)
(* h: the lexed reference head of the same request                          *)
(***************************************************************************)
LastOf(F, nm) == LET idx == { i \in 1..Len(F) : F[i].n = nm } IN F[CHOOSE i \in idx : \A j \in idx : j <= i].v

ViewFails(rq, h, v) ==
  LET verdict == Validate(rq)
  IN IF verdict = "reject" \/ (verdict = "either" /\ v.res = "err")
     THEN SClause("X04", "headers_map() of a request that cannot be sent must report the error", v.res = "err")
     ELSE   SClause("X04", "headers_map() failed for a valid request", v.res = "ok")
       \cup (IF v.res # "ok" \/ ~h.complete THEN {} ELSE
                 SClause("X04", "method() / uri() / version() in the send-request state differ from the request line on the wire",
                         v.method = h.method /\ v.target = h.target /\ v.version = h.version)
            \cup SClause("X04", "headers_map() does not have exactly the header names of the head on the wire",
                         { v.map[i].n : i \in 1..Len(v.map) } = { h.fields[i].n : i \in 1..Len(h.fields) })
            \cup SClause("X04", "headers_map() lists a name twice", \A i, j \in 1..Len(v.map) : v.map[i].n = v.map[j].n => i = j)
            \cup SClause("X04", "a value in headers_map() is not the value of that header's last line on the wire",
                         \A i \in 1..Len(v.map) : (\E k \in 1..Len(h.fields) : h.fields[k].n = v.map[i].n) => v.map[i].v = LastOf(h.fields, v.map[i].n)))

(***************************************************************************)
(* Impl: try_write_prelude — greedy, blank line glued to the last header.   *)
(* Defect "TermOnHeadRewrite": a further write on a chunked body flow after *)
(* the head is complete emits the chunked terminator (pinned tree, F3).     *)
(***************************************************************************)
RECURSIVE Greedy(_, _, _, _)
\* number of lines written starting at `sent` into `space` bytes
Greedy(lens, sent, space, acc) ==
  LET total == Len(lens)
  IN IF sent >= total - 1 THEN acc                              \* only the glued empty line is left
     ELSE LET glue == IF sent + 2 = total THEN 2 ELSE 0
              need == lens[sent + 1] + glue
          IN IF need > space THEN acc
             ELSE Greedy(lens, sent + 1 + (IF glue = 2 THEN 1 ELSE 0), space - need, acc + need)

ImplWrite(lens, sent, outl, chunkedBody, defects) ==
  LET total == Len(lens)
  IN IF sent = total
     THEN (IF "TermOnHeadRewrite" \in defects /\ chunkedBody /\ outl >= 5
           THEN [outl |-> outl, res |-> "ok", n |-> 5, whole |-> TRUE, ready |-> TRUE]
           ELSE [outl |-> outl, res |-> "ok", n |-> 0, whole |-> TRUE, ready |-> TRUE])
     ELSE LET n == Greedy(lens, sent, outl, 0)
          IN IF n = 0 THEN [outl |-> outl, res |-> "overflow", n |-> 0, whole |-> TRUE, ready |-> FALSE]
             ELSE [outl |-> outl, res |-> "ok", n |-> n, whole |-> TRUE,
                   ready |-> n = SSum(SubSeq(lens, sent + 1, total))]
=============================================================================
