SPECIFICATION Spec
CONSTANTS
  Mode = "chunked"
  NSet = {0}
  InSet = {0,1,2,3,4,5,6,7,8,9,10,11,12,13,14}
  OutSet = {0,1,2,3,4,5,6,7,8,9,10,11,12,13,14,15,16,17,18,19,20,21,22,23,24}
  AmtSet = {}
  Radix = 2
  MaxChunk = 5
  Defects = {"EndedWithoutTerminator"}
  Layer = "Impl"
  MaxCalls = 4
VIEW view
INVARIANTS Refines TermAtMostOnce FinishedIffTerm NothingAfterEnd EndedIsTerm
CHECK_DEADLOCK FALSE
