--------------------------- MODULE TraceBodyReader ---------------------------
(* Trace validation of the response-body reader against the Abs layer of BodyReader.
   Events (harness/src/drv_br.rs):
     case    [id, prop, kind ("chunked"|"length"|"close"|"hostile"), lay [L, pay], N]
     r       [w,outl,stop,res,c,p,content_ok,subseq_ok,ready]       one read() call
     verdict [must_close]          close verdict read after the body (Cleanup / Redirect)
     panic / stuck [during]                                                            *)
EXTENDS BodyReader, TraceCommon, IOUtils

Rec == ndJsonDeserialize(IOEnv.TRACE)
N == Len(Rec)

VARIABLES l, s, cs, viol, nv
vars == <<l, s, cs, viol, nv>>

NoLay == [L |-> 0, pay |-> <<>>]

Init ==
  /\ l = 1
  /\ s = [pos |-> 0, delivered |-> 0, left |-> BigZero]
  /\ cs = [id |-> "none", prop |-> "C07", kind |-> "close", lay |-> NoLay]
  /\ viol = <<>>
  /\ nv = [mine |-> 0, other |-> 0]

Step(fails) ==
  /\ viol' = AddViol(viol, l, cs.id, fails)
  /\ nv' = [mine |-> nv.mine + Cardinality(Mine(fails)), other |-> nv.other + Cardinality(fails \ Mine(fails))]
  /\ l' = l + 1

E == Rec[l]

TCase ==
  /\ E.ev = "case"
  /\ s' = [pos |-> 0, delivered |-> 0, left |-> E.N]
  /\ cs' = [id |-> E.id, prop |-> E.prop, kind |-> E.kind, lay |-> E.lay]
  /\ Step({})

TRead ==
  /\ E.ev = "r"
  /\ CASE cs.kind = "chunked" ->
            /\ Step(ChunkedReadFails(cs.lay, s, E) \cup EnvelopeFails(E)
                    \cup (IF "boundary" \in DOMAIN E THEN BoundaryFails(cs.lay, s, E) ELSE {}))
            /\ s' = ChunkedReadUpd(s, E)
       [] cs.kind = "length" ->
            /\ Step(LengthReadFails(s, E) \cup EnvelopeFails(E))
            /\ s' = LengthReadUpd(s, E)
       [] cs.kind = "close" ->
            /\ Step(CloseReadFails(s, E) \cup EnvelopeFails(E))
            /\ s' = s
       [] OTHER ->
            /\ Step(EnvelopeFails(E))
            /\ s' = s
  /\ UNCHANGED cs

TVerdict ==
  /\ E.ev = "verdict"
  /\ Step(IF cs.kind = "close" THEN CloseVerdictFails(E) ELSE {})
  /\ UNCHANGED <<s, cs>>

TOther ==
  /\ E.ev \in {"panic", "stuck"}
  /\ Step({<<cs.prop, E.ev \o " during " \o E.during>>})
  /\ UNCHANGED <<s, cs>>

TNote ==
  /\ E.ev \in {"stopset", "note"}
  /\ Step({})
  /\ UNCHANGED <<s, cs>>

Next == l <= N /\ (TCase \/ TRead \/ TVerdict \/ TOther \/ TNote)
Spec == Init /\ [][Next]_vars

Report == l = N + 1 => Verdict(N, viol, nv, [comp |-> "BodyReader"])
Consumed == TLCGet("stats").diameter = N + 1 \/ PrintT("UNMATCHED " \o ToString(TLCGet("stats").diameter))
=============================================================================
