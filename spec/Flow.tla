--------------------------------- MODULE Flow ---------------------------------
(* The composed client state machine of ureq-proto (src/client/flow.rs): typestates, the
   documented state graph, the Expect: 100-continue handshake and the connection-reuse
   verdict.  Abs layer: the contract of every public call on a Flow, as a set of failed
   clauses, plus the update of the tracked abstract state from the (logged) result.
   Used by MCFlow (implementation-shaped model, refinement) and by TraceFlow (real code).

   Properties: C09 (state graph, readiness), C10 (verdict), C11 (100-continue), C12 (no panic),
   C01 (outcome; see TraceFlow).

   Abstract state s:
     st          typestate: Prepare SendRequest Await100 SendBody RecvResponse RecvBody Redirect Cleanup Dead
     rq          [method, ver10, expect, connclose]   request configuration
     shouldSend  a request body is (still) due
     await100    the 100-continue handshake is pending
     ready       last observed readiness of the current state (writes / reads / head log it)
     status      status of the final response (0: none yet)
     modes       admissible body modes of the final response (RespRules!Modes; {} before the head)
     facts       close conditions that really happened (C10)
     skipped     late 100 responses skipped in the receive-response state
     bodyAsked   the send-body state was entered                                         *)
EXTENDS RespRules, Sequences, Integers

FClause(p, why, cond) == IF cond THEN {} ELSE {<<p, why>>}


NeedsReqBody(m) == m \in {"POST", "PUT", "PATCH"}

InitFlow(rq) ==
  [st |-> "Prepare", rq |-> rq, shouldSend |-> NeedsReqBody(rq.method), await100 |-> rq.expect,
   ready |-> FALSE, status |-> 0, modes |-> {},
   facts |-> (IF rq.ver10 THEN {"Http10"} ELSE {}) \cup (IF rq.connclose THEN {"ClientClose"} ELSE {}),
   skipped |-> 0, bodyAsked |-> FALSE, refused |-> FALSE,
   \* request body still to be sent: a number for Content-Length framing, -1 for chunked, -2 when not tracked
   bleft |-> -2, framing |-> "unknown"]

\* the trace specification knows the request's framing (cfg = [framing, cln, ...] logged with the case)
WithFraming(s, cfg) == [s EXCEPT !.bleft = cfg.cln, !.framing = cfg.framing]

(***************************************************************************)
(* The documented state graph (src/client/mod.rs) as a successor function. *)
(***************************************************************************)
Succ(s) ==
  CASE s.st = "Prepare"      -> {"SendRequest"}
    [] s.st = "SendRequest"  -> IF s.shouldSend THEN (IF s.await100 THEN {"Await100"} ELSE {"SendBody"}) ELSE {"RecvResponse"}
    [] s.st = "Await100"     -> IF s.shouldSend THEN {"SendBody"} ELSE {"RecvResponse"}
    [] s.st = "SendBody"     -> {"RecvResponse"}
    [] s.st = "RecvResponse" -> { AfterHead(m, s.status) : m \in s.modes }
    [] s.st = "RecvBody"     -> IF IsRedirectStatus(s.status) THEN {"Redirect"} ELSE {"Cleanup"}
    [] s.st = "Redirect"     -> {"Cleanup"}
    [] OTHER                 -> {}

AlwaysReady(st) == st \in {"Prepare", "Await100", "Redirect"}

\* the five explain() texts of src/client/flow.rs and the fact each one names
ReasonFact(text) ==
  CASE text = "version is http1.0"                          -> "Http10"
    [] text = "client sent Connection: close"               -> "ClientClose"
    [] text = "server sent Connection: close"               -> "ServerClose"
    [] text = "got non-100 response before sending body"    -> "Not100"
    [] text = "response body is close delimited"            -> "CloseDelimited"
    [] OTHER                                                -> "unknown"

(***************************************************************************)
(* Abs guards, one per kind of call.  e.op names the call.                  *)
(***************************************************************************)

\* proceed(): e = [ready (readiness query just before), res (next state | "none" | "err")]
ProceedFails(s, e) ==
  LET can == IF AlwaysReady(s.st) THEN TRUE ELSE e.ready
  IN   FClause("C09", "readiness query and advancing disagree", (e.res # "none") <=> can)
  \cup FClause("C09", "a flow whose request was refused at write advanced to the next state",
               (s.st = "SendRequest" /\ s.refused) => e.res = "none")
  \cup FClause("C09", "advancing failed with an error", e.res # "err")
  \cup FClause("C09", "flow landed in a state the documented state graph does not prescribe",
               e.res \notin {"none", "err"} => e.res \in Succ(s))
  \cup FClause("C11", "with Expect: 100-continue and a body due, the flow must await 100 before the body is requested",
               (s.st = "SendRequest" /\ s.shouldSend /\ s.await100 /\ e.res \notin {"none", "err"}) => e.res = "Await100")
  \cup FClause("C11", "the request body was requested although the server refused (non-100 response while awaiting 100)",
               (s.st = "Await100" /\ "Not100" \in s.facts) => e.res # "SendBody")
  \cup FClause("C11", "giving up waiting / a 100 response must lead to sending the body",
               (s.st = "Await100" /\ "Not100" \notin s.facts /\ e.res \notin {"none", "err"}) => e.res = "SendBody")

\* Flow<SendBody>::write(): e = [inl, outl, res, c, p, ready].  The body itself is C03 / C04's business; what the state
\* graph needs is that a completely sent body whose end was signalled lets the flow advance ("always lands in the
\* successor state ... for what has been sent so far").
BodyLeftAfter(s, e) == IF s.bleft >= 0 /\ e.res = "ok" THEN s.bleft - e.c ELSE s.bleft
SbWriteFails(s, e) ==
  IF "inl" \notin DOMAIN e \/ s.bleft = -2 THEN {} ELSE
       FClause("C09", "the request body was sent completely and its end signalled, but the flow does not become ready to advance",
               (e.res = "ok" /\ e.inl = 0 /\ (IF s.bleft >= 0 THEN BodyLeftAfter(s, e) = 0 ELSE e.outl >= 5)) => e.ready)
  \cup FClause("C09", "the body is not sent in the framing the request declares (on the request object or in the prepare state)",
               ("chunked" \in DOMAIN e /\ s.framing # "unknown") => (e.chunked = (s.bleft = -1)))
  \cup FClause("C09", "ready to advance although declared body bytes are still to be sent",
               (s.bleft >= 0 /\ BodyLeftAfter(s, e) > 0) => ~e.ready)
  \cup FClause("C09", "a chunked body became ready to advance by a write that cannot have emitted the terminator (not an accepted empty write with room for it)",
               (s.bleft = -1 /\ e.ready /\ ~s.ready) => (e.res = "ok" /\ e.inl = 0 /\ e.outl >= 5))

\* consume_direct_write(): e = [amt, res, ready]; the bytes count as sent
SbDirectFails(s, e) ==
  IF s.bleft < 0 THEN {} ELSE
       FClause("C09", "a direct write within the declared length was refused", e.amt <= s.bleft => e.res = "ok")
  \cup FClause("C09", "ready to advance although declared body bytes are still to be sent",
               (e.res = "ok" /\ s.bleft - e.amt > 0) => ~e.ready)
SbDirectUpd(s, e) == [s EXCEPT !.ready = e.ready, !.bleft = IF s.bleft >= 0 /\ e.res = "ok" THEN @ - e.amt ELSE @]

\* the readiness the specification expects in the state entered by a successful proceed
ReadyOnEntry(s, next) ==
  CASE next = "RecvBody"     -> Close \in s.modes
    [] OTHER                 -> FALSE

ProceedUpd(s, e) ==
  IF e.res \in {"none", "err"} THEN [s EXCEPT !.st = "Dead"]
  ELSE [s EXCEPT !.st = e.res,
                 !.ready = ReadyOnEntry(s, e.res),
                 !.bodyAsked = @ \/ e.res = "SendBody",
                 !.modes = IF s.st = "RecvResponse" /\ e.res = "RecvBody" THEN { m \in @ : NeedBody(m) } ELSE @,
                 \* leaving the body state with bytes of a delimited body unread: the message boundary is lost (C10)
                 !.facts = (IF s.st = "RecvResponse" /\ e.res = "RecvBody" /\ Close \in s.modes THEN @ \cup {"CloseDelimited"} ELSE @)
                           \cup (IF s.st = "RecvBody" /\ "body_left" \in DOMAIN e /\ e.body_left THEN {"BoundaryLost"} ELSE {})]

\* try_read_100(): e = [cls, mlen, res ("ok" | "err"), n, keep]
\*   cls: what the offered input is —
\*     "nothing" "inStatusLine" "afterStatusLine"      nothing can be decided yet
\*     "bare100"                                        a complete 100 response without fields (mlen bytes)
\*     "bareOther"                                      a complete other response without fields
\*     "otherInFields"                                  other status line + part of a field line
\*     "otherFieldLine" "otherComplete"                 other status line + >= 1 complete field line / whole head
Undecided == {"nothing", "inStatusLine", "afterStatusLine"}
Refusal == {"bareOther", "otherFieldLine", "otherComplete"}

Read100Fails(s, e) ==
       \* (a status line without the space after the code is outside the grammar: refusing it outright is not judged)
       FClause("C11", "well-formed server input made try_read_100 fail", e.res = "ok" \/ ("lenient" \in DOMAIN e /\ e.lenient))
  \cup (IF e.res # "ok" THEN {} ELSE
        FClause("C11", "input ending inside or right after the status line must decide nothing and consume nothing",
               e.cls \in Undecided => (e.n = 0 /\ e.keep))
   \cup FClause("C11", "a complete bare 100 response must be consumed exactly and end the waiting",
               e.cls = "bare100" => (e.n = e.mlen /\ ~e.keep))
   \cup FClause("C11", "a non-100 response must consume nothing and end the waiting",
               e.cls \in Refusal => (e.n = 0 /\ ~e.keep))
   \cup FClause("C11", "a non-100 response cut inside its first field line must consume nothing",
               e.cls = "otherInFields" => e.n = 0))

Read100Upd(s, e) ==
  LET refused == e.res = "ok" /\ (e.cls \in Refusal \/ (e.cls = "otherInFields" /\ ~e.keep))
  IN [s EXCEPT !.await100 = IF e.res = "ok" THEN e.keep ELSE FALSE,
               !.shouldSend = IF refused THEN FALSE ELSE @,
               !.facts = IF refused THEN @ \cup {"Not100"} ELSE @]

\* try_response(): e = [kind ("partial" | "late100" | "final"), res ("none" | "some" | "err"), n, mlen,
\*                      cell (RespRules cell of a final head), connclose, ready]
\* A late 100 offered in one window with the complete final head (e.hlen > 0) may be skipped and the final response
\* returned by the same call: "skipped exactly once before the real response" says nothing about the number of calls.
Together(s, e) == e.kind = "late100" /\ s.await100 /\ "hlen" \in DOMAIN e /\ e.hlen > 0 /\ e.res = "some" /\ e.n > e.mlen
ResponseFails(s, e) ==
  LET ms == IF e.kind = "final" \/ Together(s, e) THEN Modes(e.cell) ELSE {}
  IN CASE e.kind = "partial" ->
            FClause("C09", "an incomplete head must yield no response and consume nothing", e.res = "none" /\ e.n = 0)
       [] Together(s, e) ->
            FClause("C11", "a late 100 skipped together with the real response: both must be consumed exactly and that response returned",
                    ms # {ErrMode} /\ e.n = e.mlen + e.hlen /\ e.ready /\ e.got_status = e.cell.status)
       [] e.kind = "late100" ->
            IF s.await100
            THEN FClause("C11", "a late 100 response must be skipped: consumed exactly, no response returned, flow not ready",
                         (e.res = "none" /\ e.n = e.mlen /\ ~e.ready) \/ ("lenient" \in DOMAIN e /\ e.lenient /\ e.res = "err"))
            ELSE FClause("C09", "an interim 100 response must be consumed exactly and must not make the flow ready to advance",
                         e.res \in {"none", "some"} /\ e.n = e.mlen /\ ~e.ready)
            \cup FClause("C11", "a late 100 is skipped exactly once: a further 100 must be handed to the caller, not swallowed",
                         s.skipped >= 1 => e.res = "some")
       [] OTHER ->
            FClause("C09", "a complete well-formed response head was not accepted",
                    IF ms = {ErrMode} THEN e.res = "err"
                    ELSE (e.res = "some" /\ e.n = e.mlen /\ e.ready) \/ ("lenient" \in DOMAIN e /\ e.lenient /\ e.res = "err"))

\* close conditions established by the response head itself: Connection: close, and a body that only the close delimits
\* (a fact of the response, whether or not the flow goes on to read that body)
HeadFacts(facts, e) ==
  facts \cup (IF e.connclose THEN {"ServerClose"} ELSE {}) \cup (IF Close \in Modes(e.cell) THEN {"CloseDelimited"} ELSE {})

ResponseUpd(s, e) ==
  IF Together(s, e)
  THEN [s EXCEPT !.await100 = FALSE, !.skipped = @ + 1, !.status = e.cell.status, !.modes = Modes(e.cell), !.ready = e.ready,
                    !.facts = HeadFacts(@, e)]
  ELSE IF e.kind = "late100" /\ s.await100 /\ e.res = "none" /\ e.n > 0
  THEN [s EXCEPT !.await100 = FALSE, !.skipped = @ + 1]
  ELSE IF e.kind = "final" /\ e.res = "some"
  THEN [s EXCEPT !.status = e.cell.status, !.modes = Modes(e.cell), !.ready = e.ready,
                    !.facts = HeadFacts(@, e)]
  ELSE s

\* must_close_connection() / close_reason() in Redirect and Cleanup: e = [must_close, reason ("" if none)]
VerdictFails(s, e) ==
       FClause("C10", "must-close verdict differs from the disjunction of the close conditions",
               e.must_close <=> s.facts # {})
  \cup FClause("C10", "a close reason must be given exactly when the connection must close",
               (e.reason # "") <=> e.must_close)
  \cup FClause("C10", "the close reason names a condition that does not hold",
               \* the harness maps the text by prefix (rfact); texts it does not know are not judged
               LET rf == IF "rfact" \in DOMAIN e THEN e.rfact ELSE ReasonFact(e.reason)
               IN (e.reason # "" /\ rf # "unknown") => rf \in s.facts)
  \cup FClause("C11", "a non-100 response while awaiting 100 must mark the connection must-close",
               "Not100" \in s.facts => e.must_close)

\* Redirect::status()
StatusFails(s, e) == FClause("C15", "the redirect state reports a different status than the response", e.val = s.status)
=============================================================================
