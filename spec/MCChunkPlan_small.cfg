SPECIFICATION Spec
CONSTANTS
  Radix = 2
  MaxChunk = 5
  Defects = {}
  NMax = 60
  ExhaustiveIn = 24
INVARIANTS ImplRefinesAbs C18_NotAboveN C18_Monotone C18_MaxIsTaken C19_Progress C19_AtLeastMax C19_MonotoneIn
CHECK_DEADLOCK FALSE
