#!/usr/bin/env python3
"""Regenerates /verif/MANIFEST.json from the per-property texts below (one source of truth)."""
import json, os
ROOT = os.path.dirname(os.path.dirname(os.path.abspath(__file__)))
TECH = "explicit TLA+ spec (Abs guards + Impl model) model-checked with TLC; traces of the real code (model-generated scripts + drivers) validated against the Abs layer with TLC"
NOTE = ("Trusted: TLC, Json/IOUtils modules, the harness's lexers / slice comparisons and concretisers (round-trip self-checked); "
        "exhaustive only within the stated small scopes and sweeps, seeded sampling beyond; nothing here is a proof about the Rust code.")
T = {
"C02": ("TLC model-checks the line-atomic head writer (heads of <=3 header lines with lengths 3/4/7, every sequence of buffer sizes 0..12 and large, two calls after completion): the greedy code-shaped writer only takes Abs steps, emits whole-line prefixes, nothing after completion, and the pinned 'terminator on head rewrite' defect is refuted; on the real code generated requests (9 methods, 1.0/1.1, up to 60+58 headers, obs-text/empty values, explicit/missing Host, CL/TE, despite-method, redirect depth 0..3, Flow and both Call constructors) are written through 5-8 buffer schedules plus calls after completion; each write is validated (whole lines, overflow iff, idempotent) and the lexed head is compared with the request by TLC (request line, added-then-original headers, one Host, exactly the framing header the body then uses).", "DESIGN.md 3.2 SendHead, 6 (C02)"),
"C16": ("The head guard of the SendHead specification requires the caller-added headers to be the first fields of the lexed head, in order, once automatic Host/framing headers are removed; flows at redirect depth 0..3 under both auth policies, whose original request carries cookie/authorization/content-length, get 0..58 added headers drawn from cookie, authorization, content-length, host, connection, x-* and are serialised through buffer schedules; TLC validates every head.", "DESIGN.md 3.2 SendHead, 6 (C16)"),
"C17": ("Validate(rq) is a TLA+ operator written from the property's classes; the enumeration versions x methods x Host x Content-Length x Transfer-Encoding x despite x {Flow, Call::without_body, Call::with_body} (thorough: all ~58k cells, quick: a seeded stratified ninth) is run on the real code with three writes each; TLC checks refused <=> Validate = reject on every write, never ready, and accepted otherwise (non-textual Host: either).", "DESIGN.md 3.2 SendHead, 6 (C17)"),
"C03": ("TLC shows (small scope, all sequences of <=4-5 writes) that any writer conforming to the per-call Abs guards emits the terminator at most once, is finished iff it was emitted, and nothing after the end; that the implementation-shaped chunk writer refines Abs (and that the three pinned defects do not); every chunked write the driver makes on the real code (buffers 0..40, buffers leaving 0..12 bytes after a chunk, +-12 around 10248k, repeated/interleaved finishing writes, random sequences; Flow and Call API) is validated against the same guards.", "DESIGN.md 3.2, 6 (C03)"),
"C04": ("TLC shows on N<=6, all interleavings of write/direct-write/empty calls, that the Abs guards imply accounted+left=N, never beyond N, finished iff N accounted and end signalled; every sized write / direct write on the real code (N in 0..300 + boundaries quick, 0..=70000 thorough, u64 extremes via 24-bit limbs, overshoots with every buffer class) is validated as exact min-of-three with side-effect-free refusals.", "DESIGN.md 3.2, 6 (C04)"),
"C05": ("TLC checks every prefix of every small head layout (0..3 fields, Location at any position, statuses 200/302/304, limits 0/1/4) against the Abs offer guard for the code-shaped parse pipeline: it holds with the known deviation PartialRedirect listed, is refuted without it (KF1) and with the repaired short-prefix defect re-enabled; on the real code every prefix 0..|H|+3 of generated well-formed heads (0..130 fields, OWS, empty and obs-text values, repeated names, long reasons, every 3xx) is offered to fresh Flow / Call receivers and validated: need-more-data with 0 consumed, exact head on completion, >128 fields rejected. Events matching the listed deviation are reported as KNOWN-FINDING KF1, any other early response is a violation.", "DESIGN.md 3.2 HeadPrefix, 6 (C05), 7.2"),
"C06": ("The decision table of RFC 9112 6.3 as restated by the property is a TLA+ operator; TLC sweeps it (totality, ambiguity only where the text is silent, the code-shaped ImplMode admissible in every cell, five mutation toggles refuted); every cell methods x statuses (60 representative quick / all 900 thorough) x versions x 5 Content-Length kinds x 5 Transfer-Encoding kinds is fed to the real code (Flow and single-call API) and the answer (error / successor state / body mode and length) validated against the table by TLC.", "DESIGN.md 3.1 RespRules, 6 (C06)"),
"C20": ("Same Abs offer guard as C05 applied to the three public parsers with limits 0/1/4/128: request and response heads with 0..N+2 fields at every prefix length; complete parsers must answer incomplete / exact head + length / too-many-headers exactly by the limit, the partial parser never fails within the limit and reports only fields completely present; validated by TLC on every call.", "DESIGN.md 3.2 HeadPrefix, 6 (C20)"),
"C07": ("TLC model-checks the transcribed six-state dechunker + read loop against the Abs guard over a small-scope grammar of valid codings x every arrival schedule x output sizes x boundary stop (on/off/toggled): refinement, no error on valid input, no over-read, ended-iff, all payload; an edge cover of that model (one script per model transition) is replayed on the real decoder, plus exhaustive cut sets of tiny codings, single/double cuts, 1-byte arrivals, hex-digit boundary sizes and random codings; every read is validated against the Abs guard (totals, content, over-read, ended, one chunk per read, progress).", "DESIGN.md 3.2, 6 (C07)"),
"C08": ("TLC shows for N<=8 with trailing next-message bytes that the Abs guards imply never-beyond-N, verbatim delivery and complete-iff-N (and always-ready for close-delimited); every read on the real code (N 0..300 + boundaries quick / 0..=70000 thorough, windows and buffers 0,1,2,N-1,N,N+1,N+7,64K, u64 extremes, a body > 4 GiB actually streamed, close-delimited bodies with the verdict read in Cleanup) is validated as exact min-of-three with the next response left unconsumed.", "DESIGN.md 3.2, 6 (C08)"),
"C18": ("TLC sweeps the formula against the chunk-writer model for every n (small radix exhaustively; real constants n<=1200 quick, <=30808 thorough); the real calculate_max_input and the write it bounds are exercised for every n in scope and validated: M<=n, monotone, sized => n, fully consumed.", "DESIGN.md 3.2, 6 (C18)"),
"C19": ("TLC checks the three progress clauses on the chunk-writer model (small radix exhaustive inputs; real-constant sweep) and refutes the pinned one-digit algorithm as a negative control; probe rows (buffer 6..300 + boundaries quick, 6..11000 thorough x 10 input sizes) and whole-body loops on the real code are validated against the progress and monotonicity guards.", "DESIGN.md 3.2, 6 (C19)"),
}
def main():
    import sys
    sys.path.insert(0, os.path.join(ROOT, "bin"))
    from props import PROPS
    props = [json.loads(l) for l in open(os.path.join(ROOT, "properties.jsonl"))]
    checks = []
    na = []
    for p in props:
        pid = p["id"]
        if pid in T and pid in PROPS:
            text, ref = T[pid]
            checks.append({"property_id": pid, "quick_cmd": "bin/check %s quick" % pid, "thorough_cmd": "bin/check %s thorough" % pid,
                           "evidence_file": "/verif/evidence/%s.json" % pid, "replay_cmd_template": "bin/check %s --replay {path}" % pid,
                           "engine": "tla-trace", "level_claimed": {"category": "model_checking", "text": text, "design_ref": ref},
                           "level_note": NOTE, "technique": TECH})
        else:
            na.append({"property_id": pid, "reason": "check not built yet (work in progress, see DESIGN.md section 11); will be decided by the TLA+ specification like the others"})
    m = {"version": 1, "setup_cmd": "bin/setup",
         "hooks": {"guard": "hoot_verif", "enable": "none needed: the harness drives the public API only (no hook commits in /repo)",
                   "baseline_off_cmd": "cd /repo && cargo test --workspace --no-fail-fast --offline", "source_commits": [], "add_only": True},
         "engines": [{"name": "tla-trace", "path": "bin/check", "serves_properties": [c["property_id"] for c in checks],
                      "kind_free_text": "TLA+ specification in spec/ (Abs guards + implementation-shaped models), TLC model checking, TLC-generated edge-cover scripts replayed on the real code, TLC trace validation of ndjson traces recorded by the Rust harness (harness/) from the public API of /repo"}],
         "checks": checks,
         "notes": "exit 0 held / 1 VIOLATION / 2 tool error or vacuous run. known_findings.txt lists fixed and known findings. See DESIGN.md.",
         "not_applicable": na}
    json.dump(m, open(os.path.join(ROOT, "MANIFEST.json"), "w"), indent=1)
    print("manifest: %d checks, %d not yet claimed" % (len(checks), len(na)))
if __name__ == "__main__":
    main()
