"""Per-property configuration of bin/check: driver, trace specification, model-checking jobs."""

def mc(module, cfg, **kw):
    d = {"module": module, "cfg": cfg}
    d.update(kw)
    return d

BW_ASSUME = ["request bodies are driven through Flow<SendBody> and Call<WithBody> after a head written in one call"]

PROPS = {
    "C03": {
        "driver": "c03", "trace_spec": "TraceBodyWriter",
        "mc_quick": [mc("MCBodyWriter", "MCBodyWriter_chunked_impl.cfg"), mc("MCBodyWriter", "MCBodyWriter_chunked_abs.cfg"),
                     mc("MCChunkPlan", "MCChunkPlan_small.cfg"),
                     mc("MCBodyWriter", "MCBodyWriter_chunked_defect1.cfg", expect_violation="Refines"),
                     mc("MCBodyWriter", "MCBodyWriter_chunked_defect2.cfg", expect_violation="Refines"),
                     mc("MCBodyWriter", "MCBodyWriter_chunked_defect3.cfg", expect_violation="Refines")],
        "mc_thorough": [mc("MCBodyWriter", "MCBodyWriter_chunked_impl.cfg"), mc("MCBodyWriter", "MCBodyWriter_chunked_abs_thorough.cfg", workers=8),
                        mc("MCChunkPlan", "MCChunkPlan_small.cfg"), mc("MCChunkPlan", "MCChunkPlan_real_quick.cfg", workers=8)],
        "require_classes": ["w:term", "w:finish-no-room", "w:err", "w:partial", "dw:err", "w:queries-after-end", "w:advance-anywhere", "adv:advanced", "adv:refused"],
        "rule": "one case = a fresh chunked writer (Flow<SendBody> or Call<WithBody>) + a schedule of (input length, buffer length) writes; "
                "distinct = distinct (generator family, api, lengths / log2-shape of the schedule)",
        "assumptions": BW_ASSUME,
    },
    "C04": {
        "driver": "c04", "trace_spec": "TraceBodyWriter",
        "mc_quick": [mc("MCBodyWriter", "MCBodyWriter_sized_impl.cfg"), mc("MCBodyWriter", "MCBodyWriter_sized_abs.cfg"),
                     mc("SizedInd", "", tool="apalache", inv="IndInv")],
        "mc_thorough": [mc("MCBodyWriter", "MCBodyWriter_sized_impl.cfg"), mc("MCBodyWriter", "MCBodyWriter_sized_abs_thorough.cfg", workers=8),
                        mc("SizedInd", "", tool="apalache", inv="IndInv")],
        "require_classes": ["w:err", "dw:ok", "dw:err", "w:sized-empty", "w:overshoot", "w:small-n-on-every-request-shape", "adv:advanced", "adv:refused", "w:advance-attempt-mid-body"],
        "rule": "one case = a fresh Content-Length writer with N and a seeded schedule of write / direct-write / empty / overshooting calls; "
                "distinct = distinct (api, N, schedule style)",
        "assumptions": BW_ASSUME,
    },
    "C18": {
        "driver": "c18", "trace_spec": "TraceBodyWriter",
        "mc_quick": [mc("MCChunkPlan", "MCChunkPlan_small.cfg"), mc("MCChunkPlan", "MCChunkPlan_real_quick.cfg", workers=8)],
        "mc_thorough": [mc("MCChunkPlan", "MCChunkPlan_small.cfg"), mc("MCChunkPlan", "MCChunkPlan_real_thorough.cfg", workers=16, timeout=3000)],
        "require_kinds": ["mx", "w"],
        "rule": "one case = calculate_max_input(n) then one write of that many bytes into an n-byte buffer on a fresh writer; "
                "plus one ascending sweep of the query per body kind; distinct = distinct (body kind, n)",
        "assumptions": BW_ASSUME,
    },
    "C19": {
        "driver": "c19", "trace_spec": "TraceBodyWriter",
        "mc_quick": [mc("MCChunkPlan", "MCChunkPlan_small.cfg"), mc("MCChunkPlan", "MCChunkPlan_real_quick.cfg", workers=8),
                     mc("MCChunkPlan", "MCChunkPlan_defect.cfg", expect_violation="ImplRefinesAbs"),
                     mc("MCSendLoop", "MCSendLoop.cfg", workers=2), mc("MCSendLoop", "MCSendLoop_real.cfg", workers=2),
                     mc("MCSendLoop", "MCSendLoop_defect.cfg", workers=2, expect_violation="Terminates")],
        "mc_thorough": [mc("MCChunkPlan", "MCChunkPlan_small.cfg"), mc("MCChunkPlan", "MCChunkPlan_real_thorough.cfg", workers=16, timeout=3000),
                        mc("MCSendLoop", "MCSendLoop.cfg", workers=2), mc("MCSendLoop", "MCSendLoop_real.cfg", workers=2)],
        "require_classes": ["w:partial", "w:large-then-small", "w:stalls-then-room", "w:write-after-direct-write"],
        "rule": "one case = one probe write (input length, buffer length) on a fresh writer, grouped in rows per buffer length, "
                "or one whole-body send loop with a fixed buffer; distinct = distinct (buffer length, input length) / loop configuration",
        "assumptions": BW_ASSUME,
    },
}

BR_ASSUME = ["response bodies are reached through a GET exchange whose head is delivered in one call (head parsing is C05's subject)"]

PROPS["C07"] = {
    "driver": "c07", "trace_spec": "TraceBodyReader", "scripts": "dechunk",
    "mc_quick": [mc("MCDechunk", "MCDechunk_q1.cfg", workers=6), mc("MCDechunk", "MCDechunk_q2.cfg", workers=6),
                 mc("MCDechunk", "MCDechunk_live.cfg", workers=2)],
    "mc_thorough": [mc("MCDechunk", "MCDechunk_q1.cfg", workers=6), mc("MCDechunk", "MCDechunk_thorough.cfg", workers=16, timeout=3400, heap="12g"), mc("MCDechunk", "MCDechunk_three.cfg", workers=8), mc("MCDechunk", "MCDechunk_live.cfg", workers=2)],
    "require_classes": ["r:consume-only", "r:nothing", "r:filled-output", "r:zero-out-framing", "r:chunk-of-64k-or-more"],
    "require_kinds": ["r", "verdict"],
    "rule": "one case = one valid chunked coding (model table, small-scope grammar, hex-digit boundary sizes, random) + one arrival/buffer/stop schedule "
            "(model edge-cover script, exhaustive cut set, single/double cut, 1-byte arrivals, random); distinct = distinct (family, coding index / shape)",
    "assumptions": BR_ASSUME + ["codings keep every size line within the decoder's 20-byte sanity limit"],
}
PROPS["C08"] = {
    "driver": "c08", "trace_spec": "TraceBodyReader",
    "mc_quick": [mc("MCBodyReader", "MCBodyReader.cfg"), mc("MCBodyReader", "MCBodyReader_close.cfg"), mc("LengthInd", "", tool="apalache", inv="IndInv")],
    "mc_thorough": [mc("MCBodyReader", "MCBodyReader_thorough.cfg", workers=8), mc("MCBodyReader", "MCBodyReader_close.cfg"), mc("LengthInd", "", tool="apalache", inv="IndInv")],
    "require_classes": ["r:nothing", "r:filled-output", "verdict:close", "r:streamed-4g", "close:keep-alive-promised"],
    "rule": "one case = a Content-Length body of N bytes followed by bytes of a next response (or a close-delimited body) + an arrival/buffer schedule; "
            "distinct = distinct (api, N, buffer sizes)",
    "assumptions": BR_ASSUME,
}

PROPS["C05"] = {
    "driver": "c05", "trace_spec": "TraceHead",
    "mc_quick": [mc("MCHeadPrefix", "MCHeadPrefix.cfg"), mc("MCHeadPrefix", "MCHeadPrefix_clean.cfg"),
                 mc("MCHeadPrefix", "MCHeadPrefix_kf1.cfg", expect_violation="Refines"),
                 mc("MCHeadPrefix", "MCHeadPrefix_f4.cfg", expect_violation="Refines")],
    "require_classes": ["offer:3xx-after-location", "offer:shorter-than-version", "offer:h-1", "offer:over-limit", "offer:sequence", "offer:after-split-interim", "offer:giant-head", "offer:directed", "offer:non-ascii-at-display-boundaries"],
    "rule": "one case = one generated well-formed response head (status, version, reason, 0..130 fields with OWS / empty / obs-text values, Location position) "
            "followed by arbitrary bytes, offered at every prefix length 0..|H|+3 to a fresh Flow<RecvResponse> or Call<RecvResponse>; "
            "distinct = distinct (status class, field count, reason class, Location position class)",
    "assumptions": ["heads are generated within the quantifier: versions 1.0/1.1, statuses 101..999, numeric Content-Length only"],
}
PROPS["C20"] = {
    "driver": "c20", "trace_spec": "TraceHead",
    "mc_quick": [mc("MCHeadPrefix", "MCHeadPrefix_clean.cfg")],
    "require_classes": ["c20:over-limit", "partial:some-fields", "c20:giant-head"],
    "rule": "one case = one generated request or response head with 0..N+2 fields for a limit N in {0,1,4,128}, every prefix length given to "
            "try_parse_response / try_parse_request / try_parse_partial_response; distinct = distinct (limit, field count, parser, round mod 4)",
    "assumptions": [],
}
PROPS["C06"] = {
    "driver": "c06", "trace_spec": "TraceHead",
    "mc_quick": [mc("MCRespRules", "MCRespRules.cfg")] + [mc("MCRespRules", "MCRespRules_%s.cfg" % d, expect_violation="ImplAdmissible")
                 for d in ("LengthBeatsChunked", "ChunkedOnHttp10", "NoConnectClause", "No304Clause", "ChunkedExactCaseOnly")],
    "mc_thorough": [mc("MCRespRules", "MCRespRules_all.cfg", workers=8)],
    "require_kinds": ["cell"], "require_classes": ["cell:after-interim", "cell:closing-connection", "cell:after-rejected-expect"],
    "rule": "one cell = (method, status, response version, Content-Length kind, Transfer-Encoding kind) fed as a head to a flow (or single call) built for that method; "
            "distinct = distinct methods and statuses (every cell of their product with 2 x 5 x 5 header combinations is evaluated)",
    "assumptions": ["Content-Length values with sign or leading zeros are outside the quantifier and not generated"],
}

REQ_ASSUME = ["the request is described to the specification through the flow's own getters (method, uri, version, headers); C13-C15 check those getters against the redirect rules",
              "line lengths of the head come from a reference run with one 64 KiB buffer, whose content the head guard checks against the request"]
PROPS["C02"] = {
    "driver": "c02", "trace_spec": "TraceSendHead",
    "mc_quick": [mc("MCSendHead", "MCSendHead.cfg"), mc("MCSendHead", "MCSendHead_f3.cfg", expect_violation="Refines")],
    "require_classes": ["srw:overflow", "srw:after-complete", "srw:zero", "req:accepted", "c02:credentials-added-on-redirected", "c02:original-credentials-across-redirect"],
    "rule": "one case = one absolute-URI request (9 methods, HTTP/1.0/1.1, 0..60 original + 0..58 added headers incl. repeated names / obs-text / empty values, "
            "explicit/missing Host, optional CL or TE, despite-method, redirect depth 0..3, Flow and both Call constructors) x 5-8 buffer schedules "
            "(longest line +-1/2, exact line lengths, alternating short/long, random) + 3 calls after completion; distinct = distinct (method, version, api, depth, header-count classes)",
    "assumptions": REQ_ASSUME,
}
PROPS["C16"] = {
    "driver": "c16", "trace_spec": "TraceSendHead",
    "mc_quick": [mc("MCSendHead", "MCSendHead.cfg")],
    "require_classes": ["c16:added-on-redirected", "c16:despite", "req:accepted", "c16:added-both-framing-headers", "c16:explicit-original-host", "c16:added-host-with-port-or-empty-values", "c16:http10-flow", "c16:added-connection-option", "c16:added-transfer-coding-other-than-chunked"],
    "rule": "one case = a flow at redirect depth 0..3 (both auth policies) whose original request carries cookie/authorization/content-length, with 0..58 caller-added headers "
            "drawn from cookie, authorization, content-length, host, connection, x-*; the head is written through buffer schedules and lexed; distinct = distinct (method, depth, count class, policy)",
    "assumptions": REQ_ASSUME,
}
PROPS["C17"] = {
    "driver": "c17", "trace_spec": "TraceSendHead",
    "mc_quick": [mc("MCSendHead", "MCSendHead.cfg")],
    "require_classes": ["req:rejected", "req:accepted", "req:on-redirected-flow", "srw:after-headers-map"],
    "rule": "one case = one cell of versions {0.9,1.0,1.1,2,3} x 9 methods x Host {none, orig, added, orig+added, two, non-text} x Content-Length {none,5,0,two,-1,abc,non-UTF-8,added,orig+added} "
            "x Transfer-Encoding {none, chunked, non-text, added} x despite x {Flow, Call::without_body, Call::with_body}; three writes with buffers {0,16,large} on rejected requests; "
            "quick = a stratified ninth (by seed), thorough = all; distinct = distinct cells",
    "assumptions": REQ_ASSUME,
}

FLOW_MC_Q = [mc("MCFlow", "MCFlow_quick.cfg", workers=8),
             mc("MCFlow", "MCFlow_HolderNotConverted.cfg", workers=4, expect_violation="HolderMatches"),
             mc("MCFlow", "MCFlow_DespiteNoFraming.cfg", workers=4, expect_violation="Refines"),
             mc("MCFlow", "MCFlow_ReasonCap4.cfg", workers=4, expect_violation="NotPanicked")]
FLOW_MC_T = [mc("MCFlow", "MCFlow_thorough.cfg", workers=16, timeout=3000, heap="16g")]
FLOW_ASSUME = ["conventions of the API respected by the model (the C11 driver also looks again after a refusal): try_read_100 only while can_keep_await_100(); try_response not called again after the final response; as_new_flow at most once",
               "partial heads offered to flows stop before the end of the first field line (later cut points are C05's subject, incl. known finding KF1)"]
PROPS["C09"] = {
    "driver": "c09", "trace_spec": "TraceFlow", "scripts": "flow",
    "mc_quick": FLOW_MC_Q + [mc("MCFlow", "MCFlow_EmptyWriteIgnored.cfg", workers=4, expect_violation="Refines")], "mc_thorough": FLOW_MC_T,
    "require_kinds": ["call"], "require_classes": ["c09:every-early-message", "flow:framing-declared-in-prepare", "flow:direct-write"],
    "rule": "one case = one flow history: a model edge-cover script (every transition of MCFlow, each followed by further calls in the target state) or a seeded random history "
            "over the full menu (9 methods, both versions, Expect, despite-method, request framings, interim 100 / refusals / late 100, every body framing, redirects, premature advance in a random state); "
            "distinct = distinct scripts / (method, version, expect, framing, early message, status class, premature step)",
    "assumptions": FLOW_ASSUME,
}
PROPS["C10"] = {
    "driver": "c10", "trace_spec": "TraceFlow",
    "mc_quick": FLOW_MC_Q[:1] + FLOW_MC_Q[3:], "mc_thorough": FLOW_MC_T,
    "require_classes": ["verdict:redirect", "verdict:cleanup", "c10:refusal", "c10:truncated-3xx-answered", "c10:every-status-without-a-condition", "drain:end-of-message-arrives-in-pieces", "flow:framing-declared-in-prepare"],
    "rule": "one case = one combination of request version x request Connection {absent, close, keep-alive, both} x method x Expect outcome {none, 100, timeout, late 100, refused bare / with fields / with Connection: close} "
            "x response version x status {200,204,302,304,403} x framing x response Connection {absent, close, keep-alive, both}, driven to Cleanup with the verdict read in Redirect and Cleanup; "
            "quick = a seeded eleventh, thorough = all; distinct = distinct combinations",
    "assumptions": FLOW_ASSUME,
}
PROPS["C11"] = {
    "driver": "c11", "trace_spec": "TraceFlow",
    "mc_quick": FLOW_MC_Q[:2], "mc_thorough": FLOW_MC_T,
    "require_classes": ["c11:inStatusLine", "c11:afterStatusLine", "c11:bare100", "c11:bareOther", "c11:otherInFields", "c11:otherFieldLine", "c11:otherComplete", "c11:late100", "c11:second-100", "c11:completed", "c11:despite-method", "c11:looked-again-after-refusal", "c11:redirect-followed", "c11:bytes-behind-the-100", "flow:framing-declared-in-prepare"],
    "rule": "one case = one interim/final server head (100 with 4 reason variants, refusals bare / with fields / with Connection: close) x the prefix length at which the caller stops looking (every length, cumulatively re-presented) "
            "x HTTP/1.0 / 1.1 x request framing, continued to Cleanup on whichever path the flow takes; distinct = distinct (message, variant, version, give-up point)",
    "assumptions": FLOW_ASSUME,
}

REDIR_MC_Q = [mc("MCRedirect", "MCRedirect_quick.cfg", workers=12)] + [
    mc("MCRedirect", "MCRedirect_%s.cfg" % d, workers=4, expect_violation=inv)
    for d, inv in (("ResolveAgainstOriginal", "Refines"), ("AuthAgainstPreviousHop", "Refines"), ("AuthHostOnly", "Refines"), ("Only301_302_303", "DeadEndsOk"))]
REDIR_MC_T = [mc("MCRedirect", "MCRedirect_thorough.cfg", workers=16, timeout=3400, heap="16g")]
REDIR_ASSUME = ["requests carry no explicit Host header; the reference grammar is the structured one of spec/Redirect.tla rendered to text by the harness",
                "as_new_flow is called once per Redirect state"]
PROPS["C13"] = {
    "driver": "c13", "trace_spec": "TraceRedirect", "scripts": "redirect",
    "mc_quick": REDIR_MC_Q, "mc_thorough": REDIR_MC_T,
    "require_classes": ["hop:second-or-later", "hop:auth-kept", "hop:not-followed", "hop:caller-sets-credentials", "hop:despite-on-redirected", "hop:many-original-headers", "hop:credentials-in-the-uri", "hop:original-with-both-framing-headers"],
    "rule": "one case = one redirect chain of 1..4 hops (model edge-cover scripts; seeded random chains over absolute / scheme-relative / path-absolute / relative / query-only / empty "
            "references with fragments and decoy Location fields; directed leave-and-return, scheme downgrade, port change chains), original request with Authorization, Cookie, Content-Length, "
            "both policies; the head of every hop's request is written and lexed; distinct = distinct scripts / (method, hops, dead end)",
    "assumptions": REDIR_ASSUME,
}
PROPS["C14"] = dict(PROPS["C13"], driver="c14", require_classes=["hop:second-or-later", "hop:bad-location", "hop:several-locations", "hop:despite-on-redirected"])
PROPS["C15"] = {
    "driver": "c15", "trace_spec": "TraceRedirect",
    "mc_quick": REDIR_MC_Q[:1] + REDIR_MC_Q[4:], "mc_thorough": REDIR_MC_T,
    "require_classes": ["hop:not-followed", "hop:despite-method", "hop:after-interim-100", "hop:interim-100-surfaced", "hop:to-the-same-uri", "hop:answered-while-awaiting-100", "hop:chain-in-c15", "hop:long-chain", "hop:no-location"], "require_kinds": ["hop", "landed"],
    "rule": "one case = one flow: 9 methods x every status 300..399 x both auth policies x with/without response body (3600 flows, all of them in both tiers); "
            "distinct = distinct (method, status)",
    "assumptions": REDIR_ASSUME,
}

PROPS["C12"] = {
    "driver": "c12", "trace_spec": "TraceHostile", "scripts": "faults",
    "mc_quick": [mc("MCDechunk", "MCDechunk_hostile.cfg", workers=8), mc("MCFlow", "MCFlow_quick.cfg", workers=6),
                 mc("MCFlow", "MCFlow_ReasonCap4.cfg", workers=4, expect_violation="NotPanicked")],
    "mc_thorough": [mc("MCDechunk", "MCDechunk_hostile_thorough.cfg", workers=16, timeout=3400, heap="16g"), mc("MCFlow", "MCFlow_thorough.cfg", workers=16, timeout=3000, heap="16g")],
    "require_classes": ["h:ok", "h:err", "fault:long-name", "fault:many-fields", "fault:splice", "fault:strayCR", "fault:oversize", "fault:highbit", "fault:odd-location", "fault:lf-only", "fault:lf-truncate", "fault:odd-transfer-encoding", "fault:odd-content-length"],
    "rule": "one case = one server byte string x one arrival/buffer schedule x one request configuration: (a) every string over the decoder alphabet {0,1,a,F,;,SP,CR,LF,x} up to length 5 (quick) / 6 "
            "into a chunked body reader, whole and in 1-byte pieces; (b) every token string up to length 3 / 4 over a 17-token head alphabet through the whole flow; (c) the 849 faulty exchanges "
            "TLC enumerates from spec/Faults.tla (delete / duplicate / truncate / oversize / flip / stray CR / stray LF / swap at every segment, splices, 128-200 fields, 64 KiB names, 5 close conditions) "
            "x seeded schedules x request configurations; (d) seeded byte-level mutations; distinct = distinct (fault operator, site, request) + the enumerated families",
    "assumptions": ["a hang inside a library call is caught by the harness watchdog (no progress for 30 s => exit 3 => VIOLATION)"],
}

PROPS["C01"] = {
    "driver": "c01", "trace_spec": "TraceOutcome",
    "mc_quick": [mc("MCFlow", "MCFlow_quick.cfg", workers=8), mc("MCDechunk", "MCDechunk_q2.cfg", workers=6), mc("MCSendHead", "MCSendHead.cfg"),
                 mc("MCBodyWriter", "MCBodyWriter_chunked_impl.cfg"), mc("MCBodyReader", "MCBodyReader.cfg")],
    "mc_thorough": [mc("MCFlow", "MCFlow_thorough.cfg", workers=16, timeout=3000, heap="16g"), mc("MCDechunk", "MCDechunk_q1.cfg", workers=8), mc("MCSendHead", "MCSendHead.cfg")],
    "require_kinds": ["run", "outcome"], "require_classes": ["c01:gave-up-waiting", "c01:flow-made-by-a-redirect", "c01:response-with-many-fields", "c01:response-over-64k-in-one-window", "c01:repeated-header-names"],
    "rule": "one case = one request configuration (method, version, framing, Expect, payload size) + one server stream of 1..3 back-to-back responses (optional interim 100, CL / chunked / "
            "close-delimited bodies, 3xx with Location); per case the reference schedule and 45-145 further schedules (single cuts near both ends and random, double cuts, 1-byte arrivals, "
            "send buffers from {one line, one line-1, 1, 6, 7, 11, 64, large}, read buffers from {0,1,2,3,large}, interleaved queries), exchanges continued on the same byte cursor while reusable; "
            "distinct = distinct (method, version, framing, Expect, responses, payload size)",
    "assumptions": ["the caller waits in Await100 until the server decided or all bytes arrived; it gives up at once only against servers that send their 100 in every exchange (against a server that answers directly, giving up changes what is sent, legitimately)",
                    "arrival points inside a 3xx head after a complete Location line are excluded (owned by C05 / known finding KF1)"],
}

# ---- extras beyond the 20 listed properties (not in MANIFEST.json): growth of the specification
PROPS["X01"] = {
    "driver": "x01", "trace_spec": "TraceCall",
    "mc_quick": [mc("MCCall", "MCCall.cfg", workers=2), mc("MCCall", "MCCall_doc.cfg", workers=2), mc("MCCall", "MCCall_strict.cfg", workers=2, expect_violation="Refines")],
    "require_kinds": ["crecv", "cbody", "cfin"],
    "rule": "random histories over the single-call API (write with small buffers, premature into_receive, into_body before the response, partial heads, five framings)",
    "assumptions": ["extra: documented contract of Call<State,B>; the pinned tree's deviation ReceiveBeforeHead is listed in known_findings.txt as an observation"],
}

PROPS["X03"] = dict(PROPS["C07"], mc_quick=[], mc_thorough=[], require_classes=[],
                    rule="the C07 driver's executions judged for the extra clause X03 (is_on_chunk_boundary semantics)")

PROPS["X04"] = dict(PROPS["C02"], mc_quick=[], mc_thorough=[], require_classes=[], require_kinds=["view"],
                    rule="the C02 driver's requests judged for the extra clause X04 (method / uri / version / headers_map of a flow in the send-request state agree with the head on the wire)")
