"""Behaviours generated from the specification.

TLC explores an implementation-shaped model with DumpEdges = TRUE; an ACTION_CONSTRAINT prints
every explored transition as one JSON line (EDGE {s, t, i, cod, op}) and an ASSUME prints the
constant table of abstract inputs (TABLE [...]).  This script turns the edge list into an
EDGE COVER BY PATHS from the initial states (BFS tree + greedy extension over uncovered
edges): one implementation test per model transition.  The result depends on the spec only,
never on /repo, so it is cached under /verif/gen keyed by a hash of the spec + cfg + this file.
"""
import collections
import hashlib
import json
import os
import re
import shutil
import subprocess
import time

ROOT = os.path.dirname(os.path.dirname(os.path.abspath(__file__)))
SPEC = os.path.join(ROOT, "spec")
GEN = os.path.join(ROOT, "gen")


def spec_hash(extra, modules):
    h = hashlib.sha1()
    for f in sorted(modules):
        h.update(open(os.path.join(SPEC, f + ".tla"), "rb").read())
    h.update(open(__file__, "rb").read())
    h.update(extra.encode())
    return h.hexdigest()[:16]


def run_tlc_dump(module, cfg, out_path, workers=16, timeout=3000):
    meta = os.path.join(ROOT, "work", "gen-" + os.path.basename(cfg))
    shutil.rmtree(meta, ignore_errors=True)
    os.makedirs(meta, exist_ok=True)
    env = dict(os.environ)
    env["JAVA_TOOL_OPTIONS"] = "-Xss1g -Xmx8g"
    with open(out_path, "w") as f:
        p = subprocess.run(["tlc", "-workers", str(workers), "-metadir", meta, "-noGenerateSpecTE",
                            "-config", cfg, module + ".tla"], cwd=SPEC, env=env, stdout=f,
                           stderr=subprocess.STDOUT, timeout=timeout)
    shutil.rmtree(meta, ignore_errors=True)
    txt = open(out_path, errors="replace").read()
    if "Model checking completed. No error has been found." not in txt:
        raise RuntimeError("edge dump of %s/%s failed:\n%s" % (module, cfg, txt[-2000:]))


def unq(line):
    line = line.strip()
    if line.startswith('"'):
        line = json.loads(line)
    return line


def load_dump(path):
    table = None
    edges = []
    with open(path, errors="replace") as f:
        for line in f:
            if line.startswith('"EDGE ') or line.startswith("EDGE "):
                edges.append(json.loads(unq(line)[5:]))
            elif line.startswith('"TABLE ') or line.startswith("TABLE "):
                table = json.loads(unq(line)[6:])
    return table, edges


def edge_cover(edges, maxlen=48, prefer=None):
    """edges: list of dicts with s, t, i(initial src), op.  Returns list of paths (lists of edge idx)."""
    out = collections.defaultdict(list)
    seen_e = set()
    uniq = []
    for e in edges:
        k = (e["s"], e["t"], json.dumps(e["op"], sort_keys=True))
        if k in seen_e:
            continue
        seen_e.add(k)
        uniq.append(e)
    edges = uniq
    for idx, e in enumerate(edges):
        out[e["s"]].append(idx)
    inits = sorted({e["s"] for e in edges if e.get("i")})
    parent = {s: None for s in inits}
    order = list(inits)
    dq = collections.deque(inits)
    while dq:
        u = dq.popleft()
        for idx in out.get(u, []):
            v = edges[idx]["t"]
            if v not in parent:
                parent[v] = idx
                order.append(v)
                dq.append(v)

    def path_to(u):
        p = []
        while parent[u] is not None:
            idx = parent[u]
            p.append(idx)
            u = edges[idx]["s"]
        p.reverse()
        return p

    covered = [False] * len(edges)
    paths = []
    for u in order:
        for idx in out.get(u, []):
            if covered[idx]:
                continue
            p = path_to(u) + [idx]
            for j in p:
                covered[j] = True
            v = edges[idx]["t"]
            while len(p) < maxlen:
                cand = [j for j in out.get(v, []) if not covered[j]]
                if not cand:
                    break
                if prefer:
                    cand.sort(key=lambda j: 0 if prefer(edges[j]) else 1)
                j = cand[0]
                covered[j] = True
                p.append(j)
                v = edges[j]["t"]
            paths.append(p)
    return edges, paths, sum(covered)


# ------------------------------------------------------------------ dechunk

def gen_dechunk(tier, log):
    cfg = os.path.join(SPEC, "MCDechunk_edges_%s.cfg" % tier)
    key = spec_hash("dechunk-" + tier + open(cfg).read(), ["MCDechunk", "BodyReader", "Big"])
    os.makedirs(GEN, exist_ok=True)
    out = os.path.join(GEN, "dechunk-%s-%s.ndjson" % (tier, key))
    if os.path.exists(out):
        return out
    t0 = time.time()
    dump = out + ".dump"
    run_tlc_dump("MCDechunk", cfg, dump)
    table, edges = load_dump(dump)
    os.remove(dump)
    edges, paths, ncov = edge_cover(edges, maxlen=64, prefer=lambda e: e["op"]["op"] == "read")
    tmp = out + ".tmp"
    with open(tmp, "w") as f:
        for p in paths:
            e0 = edges[p[0]]
            cod = table[e0["cod"] - 1]
            stop0 = e0["s"].endswith(".s")
            ops = []
            for j in p:
                op = dict(edges[j]["op"])
                op.pop("fails", None)
                ops.append(op)
            f.write(json.dumps({"kind": "dechunk", "coding": cod, "stop0": stop0, "ops": ops}) + "\n")
    os.rename(tmp, out)
    for old in os.listdir(GEN):
        if old.startswith("dechunk-%s-" % tier) and os.path.join(GEN, old) != out:
            os.remove(os.path.join(GEN, old))
    log("gen: dechunk/%s: %d model edges covered by %d scripts (%.1fs)" % (tier, ncov, len(paths), time.time() - t0))
    return out


def gen_flow(tier, log):
    cfg = os.path.join(SPEC, "MCFlow_edges_%s.cfg" % tier)
    key = spec_hash("flow-" + tier + open(cfg).read(), ["MCFlow", "Flow", "RespRules", "Big"])
    os.makedirs(GEN, exist_ok=True)
    out = os.path.join(GEN, "flow-%s-%s.ndjson" % (tier, key))
    if os.path.exists(out):
        return out
    t0 = time.time()
    dump = out + ".dump"
    run_tlc_dump("MCFlow", cfg, dump)
    _table, edges = load_dump(dump)
    os.remove(dump)
    edges, paths, ncov = edge_cover(edges, maxlen=40, prefer=lambda e: e["op"]["op"] not in ("arrive", "can_proceed"))
    tmp = out + ".tmp"
    with open(tmp, "w") as f:
        for p in paths:
            e0 = edges[p[0]]
            ops = []
            for j in p:
                op = dict(edges[j]["op"])
                op.pop("fails", None)
                ops.append(op)
            f.write(json.dumps({"kind": "flow", "coding": e0["cod"], "ops": ops}) + "\n")
    os.rename(tmp, out)
    for old in os.listdir(GEN):
        if old.startswith("flow-%s-" % tier) and os.path.join(GEN, old) != out:
            os.remove(os.path.join(GEN, old))
    log("gen: flow/%s: %d model edges covered by %d scripts (%.1fs)" % (tier, ncov, len(paths), time.time() - t0))
    return out


def gen_redirect(tier, log):
    cfg = os.path.join(SPEC, "MCRedirect_edges_%s.cfg" % tier)
    key = spec_hash("redirect-" + tier + open(cfg).read(), ["MCRedirect", "Redirect"])
    os.makedirs(GEN, exist_ok=True)
    out = os.path.join(GEN, "redirect-%s-%s.ndjson" % (tier, key))
    if os.path.exists(out):
        return out
    t0 = time.time()
    dump = out + ".dump"
    run_tlc_dump("MCRedirect", cfg, dump)
    _table, edges = load_dump(dump)
    os.remove(dump)
    edges, paths, ncov = edge_cover(edges, maxlen=4)
    tmp = out + ".tmp"
    with open(tmp, "w") as f:
        for p in paths:
            e0 = edges[p[0]]
            f.write(json.dumps({"kind": "redirect", "coding": e0["cod"], "ops": [edges[j]["op"] for j in p]}) + "\n")
    os.rename(tmp, out)
    for old in os.listdir(GEN):
        if old.startswith("redirect-%s-" % tier) and os.path.join(GEN, old) != out:
            os.remove(os.path.join(GEN, old))
    log("gen: redirect/%s: %d model edges covered by %d scripts (%.1fs)" % (tier, ncov, len(paths), time.time() - t0))
    return out


def gen_faults(tier, log):
    cfg = os.path.join(SPEC, "Faults.cfg")
    key = spec_hash("faults" + open(cfg).read(), ["Faults"])
    os.makedirs(GEN, exist_ok=True)
    out = os.path.join(GEN, "faults-%s.ndjson" % key)
    if os.path.exists(out):
        return out
    t0 = time.time()
    dump = out + ".dump"
    run_tlc_dump("Faults", cfg, dump, workers=4)
    n = 0
    tmp = out + ".tmp"
    with open(dump, errors="replace") as f, open(tmp, "w") as g:
        for line in f:
            if line.startswith('"FAULT ') or line.startswith("FAULT "):
                d = json.loads(unq(line)[6:])
                d["kind"] = "fault"
                g.write(json.dumps(d) + "\n")
                n += 1
    os.remove(dump)
    os.rename(tmp, out)
    for old in os.listdir(GEN):
        if old.startswith("faults-") and os.path.join(GEN, old) != out:
            os.remove(os.path.join(GEN, old))
    log("gen: faults: %d faulty exchanges enumerated by TLC (%.1fs)" % (n, time.time() - t0))
    return out


GENERATORS = {"dechunk": gen_dechunk, "flow": gen_flow, "redirect": gen_redirect, "faults": gen_faults}


def ensure(name, tier, log):
    return GENERATORS[name](tier, log)


def ensure_all(log):
    for name, g in GENERATORS.items():
        g("quick", log)
