"""Behaviours generated from the specification (they depend on the spec only, never on /repo):
cached under /verif/gen keyed by a hash of the spec files."""
import os

ROOT = os.path.dirname(os.path.dirname(os.path.abspath(__file__)))

GENERATORS = {}


def ensure(name, tier, log):
    return GENERATORS[name](tier, log)


def ensure_all(log):
    for name, g in GENERATORS.items():
        for tier in ("quick",):
            g(tier, log)
